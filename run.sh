#!/bin/sh
# thin wrapper: ./run.sh <Cxx> <quick|thorough> | --replay <file> | --build
cd "$(dirname "$0")" || exit 2
exec python3 drv/verifdrv.py "$@"
