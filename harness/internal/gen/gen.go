// Package gen holds the PRNG generators shared by the checks.
package gen

import (
	"crypto/sha256"
	"fmt"
	"math"
	"math/rand"
	"verif/harness/internal/cborx"

	"github.com/ipfs/go-cid"
	ipld "github.com/ipld/go-ipld-prime"
	"github.com/ipld/go-ipld-prime/datamodel"
	"github.com/ipld/go-ipld-prime/fluent/qp"
	cidlink "github.com/ipld/go-ipld-prime/linking/cid"
	"github.com/ipld/go-ipld-prime/node/basicnode"
	"github.com/ipld/go-ipld-prime/node/bindnode"
	"github.com/ipld/go-ipld-prime/schema"
	selectorparse "github.com/ipld/go-ipld-prime/traversal/selector/parse"
	"github.com/libp2p/go-libp2p/core/peer"
	mh "github.com/multiformats/go-multihash"

	datatransfer "github.com/filecoin-project/go-data-transfer/v2"
)

// AllSelector is the explore-all selector node.
var AllSelector = selectorparse.CommonSelector_ExploreAllRecursively

// Peer derives a deterministic peer id from a label (identity-free sha256 multihash).
func Peer(label string) peer.ID {
	h := sha256.Sum256([]byte("peer:" + label))
	m, _ := mh.Encode(h[:], mh.SHA2_256)
	return peer.ID(m)
}

// Peers returns n distinct deterministic peer ids drawn with the rng.
func Peers(r *rand.Rand, n int) []peer.ID {
	out := make([]peer.ID, n)
	base := r.Int63()
	for i := range out {
		out[i] = Peer(fmt.Sprintf("%d-%d", base, i))
	}
	return out
}

// Cid makes a CIDv1 (dag-cbor or raw) from random bytes.
func Cid(r *rand.Rand) cid.Cid {
	b := make([]byte, 16)
	r.Read(b)
	h := sha256.Sum256(b)
	m, _ := mh.Encode(h[:], mh.SHA2_256)
	codec := uint64(0x71)
	if r.Intn(3) == 0 {
		codec = 0x55
	}
	return cid.NewCidV1(codec, m)
}

// CidV0 makes a CIDv0.
func CidV0(r *rand.Rand) cid.Cid {
	b := make([]byte, 16)
	r.Read(b)
	h := sha256.Sum256(b)
	m, _ := mh.Encode(h[:], mh.SHA2_256)
	return cid.NewCidV0(m)
}

func randString(r *rand.Rand, max int, ascii bool) string {
	n := r.Intn(max + 1)
	b := make([]byte, n)
	for i := range b {
		if ascii {
			b[i] = byte('a' + r.Intn(26))
		} else {
			b[i] = byte(r.Intn(256))
		}
	}
	return string(b)
}

// Node generates an arbitrary non-null IPLD value of the data model (all kinds, nested,
// maps in random key order, bytes/strings possibly non-UTF-8, links, extreme ints, floats).
// DAG-CBOR cannot carry NaN/Inf, so floats are finite.
func Node(r *rand.Rand, depth int) datamodel.Node {
	return ToNode(Plain(r, depth))
}

// NodeOrNull is Node but may return null for nested positions.
func NodeOrNull(r *rand.Rand, depth int) datamodel.Node {
	return ToNode(PlainOrNull(r, depth))
}

// Voucher generates a typed voucher with an arbitrary IPLD body.
// One voucher in six is a schema-typed node (a Go struct bound to an IPLD schema type, the way
// applications define vouchers) whose representation - what DAG-CBOR carries - differs from its
// type-level view: a tuple, or a map with renamed keys.
func Voucher(r *rand.Rand, typ string) datatransfer.TypedVoucher {
	if r.Intn(6) == 0 {
		return datatransfer.TypedVoucher{Type: datatransfer.TypeIdentifier(typ), Voucher: TypedNode(r)}
	}
	return datatransfer.TypedVoucher{Type: datatransfer.TypeIdentifier(typ), Voucher: Node(r, 2)}
}

type receipt struct {
	Amount int64
	Memo   string
	Paid   bool
}

type ticket struct {
	Seat  string
	Price int64
}

var typedSchema = func() *schema.TypeSystem {
	ts, err := ipld.LoadSchemaBytes([]byte(`
		type Receipt struct {
			Amount Int
			Memo   String
			Paid   Bool
		} representation tuple
		type Ticket struct {
			Seat  String (rename "s")
			Price Int    (rename "p")
		}
	`))
	if err != nil {
		panic(err)
	}
	return ts
}()

// TypedNode generates a schema-typed (bindnode) value.
func TypedNode(r *rand.Rand) datamodel.Node {
	if r.Intn(2) == 0 {
		return bindnode.Wrap(&receipt{Amount: r.Int63n(1 << 40), Memo: fmt.Sprintf("memo-%d", r.Intn(1000)), Paid: r.Intn(2) == 0}, typedSchema.TypeByName("Receipt"))
	}
	return bindnode.Wrap(&ticket{Seat: fmt.Sprintf("row-%d", r.Intn(100)), Price: r.Int63n(10000)}, typedSchema.TypeByName("Ticket"))
}

// SimpleVoucher is a small list voucher (like the repo's test voucher).
func SimpleVoucher(typ, data string) datatransfer.TypedVoucher {
	n, _ := qp.BuildList(basicnode.Prototype.Any, 1, func(la datamodel.ListAssembler) {
		qp.ListEntry(la, qp.String(data))
	})
	return datatransfer.TypedVoucher{Type: datatransfer.TypeIdentifier(typ), Voucher: n}
}

// Pick returns a random element.
func Pick[T any](r *rand.Rand, xs []T) T { return xs[r.Intn(len(xs))] }

// ---------------------------------------------------------------- plain values
// Plain generates an arbitrary non-null IPLD value as plain Go data understood by cborx
// (bool, int64, float64, string, []byte, cid.Cid, cborx-style []any, ordered map OMap).

// OMap is a map with an explicit (random) insertion order and unique keys.
type OMap []OKV
type OKV struct {
	K string
	V any
}

func Plain(r *rand.Rand, depth int) any {
	k := r.Intn(9)
	if depth <= 0 && k >= 7 {
		k = r.Intn(7)
	}
	switch k {
	case 0:
		return r.Intn(2) == 0
	case 1:
		switch r.Intn(5) {
		case 0:
			return int64(math.MaxInt64)
		case 1:
			return int64(math.MinInt64)
		case 2:
			return int64(r.Intn(48)) - 24
		default:
			return r.Int63() - r.Int63()
		}
	case 2:
		f := r.NormFloat64() * math.Pow(10, float64(r.Intn(20)-10))
		switch r.Intn(8) {
		case 0:
			f = float64(r.Intn(100))
		case 1:
			// floats whose IEEE bit pattern is tiny (0.0, denormals): always 9 bytes in DAG-CBOR
			f = Pick(r, []float64{0, math.Copysign(0, -1), 5e-324, 1e-320, 2.1219957905e-314, math.MaxFloat64, math.SmallestNonzeroFloat64})
		}
		return f
	case 3:
		return randString(r, 40, r.Intn(4) != 0)
	case 4:
		b := make([]byte, r.Intn(64))
		r.Read(b)
		return b
	case 5:
		return Cid(r)
	case 6:
		return ""
	case 7:
		n := r.Intn(5)
		out := make([]any, n)
		for i := range out {
			out[i] = PlainOrNull(r, depth-1)
		}
		return out
	default:
		n := r.Intn(5)
		keys := map[string]bool{}
		var om OMap
		for len(om) < n {
			s := randString(r, 12, r.Intn(5) != 0)
			if !keys[s] {
				keys[s] = true
				om = append(om, OKV{s, PlainOrNull(r, depth-1)})
			}
		}
		if om == nil {
			om = OMap{}
		}
		return om
	}
}

func PlainOrNull(r *rand.Rand, depth int) any {
	if r.Intn(10) == 0 {
		return nil
	}
	return Plain(r, depth)
}

// ToNode builds an IPLD node (basicnode) from a plain value; maps keep their insertion order.
func ToNode(v any) datamodel.Node {
	switch x := v.(type) {
	case nil:
		return datamodel.Null
	case bool:
		return basicnode.NewBool(x)
	case int64:
		return basicnode.NewInt(x)
	case float64:
		return basicnode.NewFloat(x)
	case string:
		return basicnode.NewString(x)
	case []byte:
		return basicnode.NewBytes(x)
	case cid.Cid:
		return basicnode.NewLink(cidlink.Link{Cid: x})
	case []any:
		nd, err := qp.BuildList(basicnode.Prototype.Any, int64(len(x)), func(la datamodel.ListAssembler) {
			for _, e := range x {
				qp.ListEntry(la, qp.Node(ToNode(e)))
			}
		})
		if err != nil {
			panic(err)
		}
		return nd
	case OMap:
		nd, err := qp.BuildMap(basicnode.Prototype.Any, int64(len(x)), func(ma datamodel.MapAssembler) {
			for _, kv := range x {
				qp.MapEntry(ma, kv.K, qp.Node(ToNode(kv.V)))
			}
		})
		if err != nil {
			panic(err)
		}
		return nd
	}
	panic(fmt.Sprintf("gen.ToNode: unsupported %T", v))
}

// CborxPairs lets cborx canonicalise an OMap without importing this package.
func (m OMap) CborxPairs() []cborx.KV {
	out := make([]cborx.KV, len(m))
	for i, kv := range m {
		out[i] = cborx.KV{K: kv.K, V: kv.V}
	}
	return out
}
