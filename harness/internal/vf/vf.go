// Package vf is the small case-running framework shared by every check:
// deterministic case lists (seed, index), sharding over worker processes,
// BEGIN/END records in a JSONL file (so a crash is attributable to a case),
// synctest bubbles with a real-time watchdog, violations with stable signatures,
// per-case counters and observation fingerprints for the evidence files.
package vf

import (
	"crypto/sha256"
	"encoding/hex"
	"encoding/json"
	"fmt"
	"math/rand"
	"os"
	"regexp"
	"runtime"
	"runtime/debug"
	"runtime/pprof"
	"sort"
	"strconv"
	"strings"
	"sync"
	"syscall"
	"testing"
	"testing/synctest"
	"time"
)

// Violation is one refutation of a property observed by a monitor.
type Violation struct {
	Property string `json:"property"`
	// Sig is the stable signature used for known-findings matching and de-duplication:
	// call site + shape of the input/history, never just the property id.
	Sig    string `json:"sig"`
	Detail string `json:"detail"`
}

// Case is the context handed to a check body for one generated case.
type Case struct {
	Check string
	Seed  int64
	Index int
	Tier  string
	Rng   *rand.Rand
	T     *testing.T

	mu           sync.Mutex
	viols        []Violation
	counters     map[string]int64
	marks        []string
	nontrivial   bool
	sample       any
	params       any
	notes        []string
	inconclusive bool
}

// Violation records a refutation. It never stops the case: monitors keep observing.
func (c *Case) Violation(prop, sig, format string, a ...any) {
	c.mu.Lock()
	defer c.mu.Unlock()
	if len(c.viols) < 20 {
		c.viols = append(c.viols, Violation{Property: prop, Sig: sig, Detail: fmt.Sprintf(format, a...)})
	}
}

// Count adds n to a named counter (aggregated over all cases by the driver).
func (c *Case) Count(key string, n int) {
	c.mu.Lock()
	c.counters[key] += int64(n)
	c.mu.Unlock()
}

// Mark adds an observed fact to the case's observation fingerprint. Only observations of
// the execution (event codes, statuses, orders) should be marked, never raw inputs.
func (c *Case) Mark(format string, a ...any) {
	s := fmt.Sprintf(format, a...)
	c.mu.Lock()
	c.marks = append(c.marks, s)
	c.mu.Unlock()
}

// NonTrivial declares that the premise of the property was actually exercised by this case.
func (c *Case) NonTrivial() { c.mu.Lock(); c.nontrivial = true; c.mu.Unlock() }

// Sample attaches a human-readable description of the case (kept for a few cases only).
func (c *Case) Sample(v any) { c.mu.Lock(); c.sample = v; c.mu.Unlock() }

// Params records the generated parameters (goes into replay files on violation).
func (c *Case) Params(v any) { c.mu.Lock(); c.params = v; c.mu.Unlock() }

// Note adds free text to the record (debugging aid, shown in replay files).
func (c *Case) Note(format string, a ...any) {
	c.mu.Lock()
	if len(c.notes) < 200 {
		c.notes = append(c.notes, fmt.Sprintf(format, a...))
	}
	c.mu.Unlock()
}

// Violations returns the number recorded so far.
func (c *Case) Violations() int { c.mu.Lock(); defer c.mu.Unlock(); return len(c.viols) }

type record struct {
	Kind         string           `json:"kind"` // begin | end | info
	Check        string           `json:"check"`
	Seed         int64            `json:"seed"`
	Index        int              `json:"index"`
	Shard        string           `json:"shard,omitempty"`
	Viols        []Violation      `json:"viols,omitempty"`
	Counters     map[string]int64 `json:"counters,omitempty"`
	FP           string           `json:"fp,omitempty"`
	NonTrivial   bool             `json:"nontrivial,omitempty"`
	Sample       any              `json:"sample,omitempty"`
	Params       any              `json:"params,omitempty"`
	Notes        []string         `json:"notes,omitempty"`
	Inconclusive bool             `json:"inconclusive,omitempty"`
	Panic        string           `json:"panic,omitempty"`
	Stack        string           `json:"stack,omitempty"`
	WallMS       int64            `json:"wall_ms,omitempty"`
}

var (
	outMu   sync.Mutex
	outFile *os.File
)

func emit(r record) {
	outMu.Lock()
	defer outMu.Unlock()
	if outFile == nil {
		p := os.Getenv("VERIF_OUT")
		if p == "" {
			outFile = os.Stdout
		} else {
			f, err := os.OpenFile(p, os.O_CREATE|os.O_APPEND|os.O_WRONLY, 0o644)
			if err != nil {
				panic(err)
			}
			outFile = f
		}
	}
	b, err := json.Marshal(r)
	if err != nil {
		b, _ = json.Marshal(record{Kind: r.Kind, Check: r.Check, Seed: r.Seed, Index: r.Index, Viols: r.Viols, Panic: "marshal error: " + err.Error()})
	}
	outFile.Write(append(b, '\n'))
}

func envInt(name string, def int) int {
	if v := os.Getenv(name); v != "" {
		if n, err := strconv.Atoi(v); err == nil {
			return n
		}
	}
	return def
}

// Seed returns VERIF_SEED (default 1).
func Seed() int64 { return int64(envInt("VERIF_SEED", 1)) }

// Tier returns VERIF_TIER (default quick).
func Tier() string {
	if os.Getenv("VERIF_TIER") == "thorough" {
		return "thorough"
	}
	return "quick"
}

// Opts configures Run.
type Opts struct {
	// Bubble runs each case inside its own synctest bubble (virtual time, quiescence detection).
	Bubble bool
	// WatchdogSec is the real-time watchdog per case (default 90). When it fires the process
	// dumps all goroutines to stderr and exits with status 7; the driver classifies.
	WatchdogSec int
	// DefaultN is the number of cases when VERIF_N is not set (developer runs).
	DefaultN int
}

// caseSeed derives the PRNG seed of a case from (check, seed, index) only.
func caseSeed(check string, seed int64, idx int) int64 {
	h := sha256.Sum256([]byte(fmt.Sprintf("%s|%d|%d", check, seed, idx)))
	var x int64
	for i := 0; i < 8; i++ {
		x = x<<8 | int64(h[i])
	}
	return x
}

// Run executes the case list of a check: indices [0,N) restricted to this worker's shard.
// Environment: VERIF_SEED, VERIF_TIER, VERIF_N, VERIF_SHARD=k/n, VERIF_FROM=i (resume),
// VERIF_ONLY=i (replay one case), VERIF_OUT=path.
func Run(t *testing.T, check string, o Opts, body func(c *Case)) {
	seed := Seed()
	n := envInt("VERIF_N", o.DefaultN)
	if n <= 0 {
		n = 10
	}
	k, m := 0, 1
	if s := os.Getenv("VERIF_SHARD"); s != "" {
		fmt.Sscanf(s, "%d/%d", &k, &m)
		if m <= 0 {
			k, m = 0, 1
		}
	}
	from := envInt("VERIF_FROM", 0)
	only := envInt("VERIF_ONLY", -1)
	wd := o.WatchdogSec
	if wd == 0 {
		wd = 90
	}
	if v := envInt("VERIF_WATCHDOG", 0); v > 0 {
		wd = v
	}
	for i := from; i < n; i++ {
		if only >= 0 && i != only {
			continue
		}
		if only < 0 && i%m != k {
			continue
		}
		runOne(t, check, seed, i, o.Bubble, wd, body)
	}
}

func runOne(t *testing.T, check string, seed int64, i int, bubble bool, wdSec int, body func(c *Case)) {
	c := &Case{Check: check, Seed: seed, Index: i, Tier: Tier(), T: t,
		Rng: rand.New(rand.NewSource(caseSeed(check, seed, i))), counters: map[string]int64{}}
	emit(record{Kind: "begin", Check: check, Seed: seed, Index: i, Shard: os.Getenv("VERIF_SHARD")})
	start := time.Now()
	// real-time watchdog, outside any bubble
	stop := make(chan struct{})
	go func() {
		select {
		case <-stop:
		case <-time.After(time.Duration(wdSec) * time.Second):
			fmt.Fprintf(os.Stderr, "\nVERIF-WATCHDOG check=%s seed=%d index=%d after=%ds numgoroutine=%d\n", check, seed, i, wdSec, runtime.NumGoroutine())
			pprof.Lookup("goroutine").WriteTo(os.Stderr, 2)
			os.Exit(7)
		}
	}()
	var pmsg, pstack string
	run := func() {
		defer func() {
			if r := recover(); r != nil {
				pmsg = fmt.Sprint(r)
				pstack = string(debug.Stack())
			}
		}()
		body(c)
	}
	if bubble {
		// (in a goroutine of its own: when the race detector reports a race inside the bubble, the testing
		// package aborts the calling goroutine with Goexit; the case loop must survive that and write the
		// record of what the monitors saw)
		bubbleDone := make(chan struct{})
		go func() {
			defer close(bubbleDone)
			// synctest.Test panics in the caller when the bubble deadlocks; keep the record.
			defer func() {
				if r := recover(); r != nil {
					if pmsg == "" { // keep an earlier panic of the case body: it is the cause
						pmsg = "synctest: " + fmt.Sprint(r)
						// which goroutines of the bubble are left? (leak / hang triage)
						var left []string
						for _, blk := range strings.Split(dumpAll(), "\n\n") {
							if strings.Contains(blk, "synctest bubble") && !strings.Contains(blk, "synctest.Run") {
								if len(blk) > 1200 {
									blk = blk[:1200]
								}
								left = append(left, blk)
							}
						}
						pstack = fmt.Sprintf("%d goroutines left in the bubble:\n%s", len(left), strings.Join(left, "\n\n"))
					}
				}
			}()
			synctest.Test(t, func(t *testing.T) {
				c.T = t
				run()
			})
		}()
		<-bubbleDone
	} else {
		run()
	}
	close(stop)
	c.mu.Lock()
	sort.Strings(c.marks)
	h := sha256.Sum256([]byte(strings.Join(c.marks, "\n")))
	rec := record{Kind: "end", Check: check, Seed: seed, Index: i, Viols: c.viols, Counters: c.counters,
		FP: hex.EncodeToString(h[:8]), NonTrivial: c.nontrivial, Inconclusive: c.inconclusive, Sample: c.sample, Params: c.params, Notes: c.notes,
		Panic: pmsg, Stack: trimStack(pstack), WallMS: time.Since(start).Milliseconds()}
	c.mu.Unlock()
	emit(rec)
}

func trimStack(s string) string {
	if len(s) > 6000 {
		return s[:6000]
	}
	return s
}

// OrderedMark is like Mark but keeps order by prefixing a sequence number; use for traces
// whose order is itself the observation.
func (c *Case) OrderedMark(seq int, format string, a ...any) {
	c.Mark("%06d:%s", seq, fmt.Sprintf(format, a...))
}

// Recover runs f and reports whether it panicked (with the panic value and a short stack).
func Recover(f func()) (panicked bool, val any, stack string) {
	defer func() {
		if r := recover(); r != nil {
			panicked, val, stack = true, r, trimStack(string(debug.Stack()))
		}
	}()
	f()
	return
}

// TopLibFrame extracts the first go-data-transfer (non-harness) function from a stack text.
func TopLibFrame(stack string) string {
	for _, ln := range strings.Split(stack, "\n") {
		ln = strings.TrimSpace(ln)
		if strings.HasPrefix(ln, "github.com/filecoin-project/go-data-transfer/v2") {
			if i := strings.LastIndex(ln, "("); i > 0 {
				ln = ln[:i]
			}
			return strings.TrimPrefix(ln, "github.com/filecoin-project/go-data-transfer/v2")
		}
	}
	return "?"
}

// ---------------------------------------------------------------- hang detection (real time)

var goroutineHdr = regexp.MustCompile(`^goroutine (\d+) \[([^\],]+)`)

// libGoroutines parses a full goroutine dump and returns, for every goroutine that has a
// go-data-transfer (non-test) frame, "topLibFrame@state", plus whether any of them is runnable.
func libGoroutines(dump string) (parked []string, busy bool) {
	for _, blk := range strings.Split(dump, "\n\n") {
		blk = strings.TrimSpace(blk)
		m := goroutineHdr.FindStringSubmatch(blk)
		if m == nil || !strings.Contains(blk, "github.com/filecoin-project/go-data-transfer/v2") {
			continue
		}
		state := m[2]
		fr := TopLibFrame(blk)
		if fr == "?" {
			continue
		}
		switch state {
		case "running", "runnable", "syscall":
			busy = true
		default:
			parked = append(parked, fr+"@"+state)
		}
	}
	sort.Strings(parked)
	return
}

func dumpAll() string {
	var b strings.Builder
	pprof.Lookup("goroutine").WriteTo(&b, 2)
	return b.String()
}

// HangCheck runs fn in a goroutine and waits for it in REAL time (use outside bubbles only).
// If fn has not returned within limit, two goroutine dumps one second apart are compared: when
// the set of parked library goroutines is identical, none is runnable and at least one waits on
// a lock, the hang is a confirmed deadlock and reported as a violation of prop with a fingerprint
// of the parked library frames; otherwise the case is marked inconclusive (busy, never a verdict).
// The stuck goroutines are leaked on purpose: the process carries on with the next case.
func (c *Case) HangCheck(prop, what string, limit time.Duration, fn func()) bool {
	done := make(chan struct{})
	go func() {
		defer close(done)
		defer func() {
			if r := recover(); r != nil {
				c.Violation(prop, "panic "+TopLibFrame(string(debug.Stack()))+" "+what, "%s panicked: %v", what, r)
			}
		}()
		fn()
	}()
	select {
	case <-done:
		return true
	case <-time.After(limit):
	}
	d1 := dumpAll()
	select {
	case <-done:
		return true
	case <-time.After(1500 * time.Millisecond):
	}
	d2 := dumpAll()
	p1, b1 := libGoroutines(d1)
	p2, b2 := libGoroutines(d2)
	onLock := false
	for _, p := range p2 {
		if strings.Contains(p, "Mutex") || strings.Contains(p, "semacquire") || strings.Contains(p, "chan") || strings.Contains(p, "select") {
			onLock = true
		}
	}
	if !b1 && !b2 && onLock && strings.Join(p1, "|") == strings.Join(p2, "|") {
		// reduce to distinct frames for a stable fingerprint
		seen := map[string]bool{}
		var fp []string
		for _, p := range p2 {
			if !seen[p] && (strings.Contains(p, "Mutex") || strings.Contains(p, "semacquire") || strings.Contains(p, "chan") || strings.Contains(p, "select")) {
				seen[p] = true
				fp = append(fp, p)
			}
		}
		excerpt := ""
		for _, blk := range strings.Split(d2, "\n\n") {
			if strings.Contains(blk, "github.com/filecoin-project/go-data-transfer/v2") && len(excerpt) < 5000 {
				excerpt += blk + "\n\n"
			}
		}
		if dir := os.Getenv("VERIF_DUMPDIR"); dir != "" {
			os.WriteFile(fmt.Sprintf("%s/hang.%s.%d.%d.txt", dir, c.Check, c.Seed, c.Index), []byte(d2), 0o644)
		}
		c.Violation(prop, "hang "+what+": "+strings.Join(fp, " | "), "%s did not return within %v; library goroutines are parked and unchanged between two dumps:\n%s", what, limit, excerpt)
		return false
	}
	// not a stable deadlock picture. A livelock? The same library goroutines keep running in the same
	// library functions, dump after dump, and the process burns CPU all the while (a goroutine that is
	// merely starved on a loaded machine does not): a call that spins and will never return.
	spinning := func(dump string) map[string]string {
		out := map[string]string{}
		for _, blk := range strings.Split(dump, "\n\n") {
			blk = strings.TrimSpace(blk)
			m := goroutineHdr.FindStringSubmatch(blk)
			if m == nil || !strings.Contains(blk, "github.com/filecoin-project/go-data-transfer/v2") {
				continue
			}
			if st := m[2]; st == "running" || st == "runnable" {
				if fr := TopLibFrame(blk); fr != "?" {
					out[m[1]] = fr
				}
			}
		}
		return out
	}
	cpu := func() time.Duration {
		var ru syscall.Rusage
		syscall.Getrusage(syscall.RUSAGE_SELF, &ru)
		return time.Duration(ru.Utime.Nano() + ru.Stime.Nano())
	}
	s0, c0, t0 := spinning(d2), cpu(), time.Now()
	var last string
	for i := 0; i < 3 && len(s0) > 0; i++ {
		select {
		case <-done:
			return true
		case <-time.After(2 * time.Second):
		}
		last = dumpAll()
		si := spinning(last)
		for id, fr := range s0 { // keep the goroutines that are still running in the same library function
			if si[id] != fr {
				delete(s0, id)
			}
		}
	}
	if len(s0) > 0 && cpu()-c0 > time.Since(t0)/2 {
		var frames []string
		seen := map[string]bool{}
		for _, fr := range s0 {
			if !seen[fr] {
				seen[fr] = true
				frames = append(frames, fr+"@running")
			}
		}
		sort.Strings(frames)
		excerpt := ""
		for _, blk := range strings.Split(last, "\n\n") {
			if strings.Contains(blk, "github.com/filecoin-project/go-data-transfer/v2") && len(excerpt) < 5000 {
				excerpt += blk + "\n\n"
			}
		}
		c.Violation(prop, "hang "+what+" (spinning): "+strings.Join(frames, " | "), "%s did not return within %v; the same library goroutines are still running in the same library functions 6 s and four dumps later while the process burns CPU:\n%s", what, limit, excerpt)
		return false
	}
	c.Inconclusive("%s did not return within %v but the process is still busy (no stable deadlock picture)", what, limit)
	return false
}

// Inconclusive marks the case as undecided (watchdog on a busy process, checker timeout ...).
func (c *Case) Inconclusive(format string, a ...any) {
	c.mu.Lock()
	c.notes = append(c.notes, "INCONCLUSIVE: "+fmt.Sprintf(format, a...))
	c.inconclusive = true
	c.mu.Unlock()
}

// ParkedOnLocks returns the library goroutines that stay parked on a mutex (real clock, use
// outside bubbles only). A goroutine that merely waits its turn is not "left blocked": the library
// holds the channel lock across waits that it bounds itself (the fail-safe waits for graphsync to
// open or cancel a request, 5 s + 1 s), so a goroutine counts only when the same goroutine (by id)
// is parked on a lock in two dumps 300 ms apart AND still in a third one taken `settle` later,
// where settle exceeds every bounded wait of the library. The second result is the last dump.
func ParkedOnLocks() ([]string, string) {
	const settle = 12 * time.Second
	onLock := func(dump string) map[string]string {
		out := map[string]string{}
		for _, blk := range strings.Split(dump, "\n\n") {
			blk = strings.TrimSpace(blk)
			m := goroutineHdr.FindStringSubmatch(blk)
			if m == nil || !strings.Contains(blk, "github.com/filecoin-project/go-data-transfer/v2") {
				continue
			}
			if st := m[2]; strings.Contains(st, "Mutex") || strings.Contains(st, "semacquire") {
				if fr := TopLibFrame(blk); fr != "?" {
					out[m[1]] = fr + "@" + st
				}
			}
		}
		return out
	}
	p1 := onLock(dumpAll())
	if len(p1) == 0 {
		return nil, ""
	}
	time.Sleep(300 * time.Millisecond)
	p2 := onLock(dumpAll())
	still := false
	for id := range p2 {
		if _, ok := p1[id]; ok {
			still = true
		}
	}
	if !still {
		return nil, ""
	}
	time.Sleep(settle)
	last := dumpAll()
	p3 := onLock(last)
	var out []string
	for id, fr := range p3 {
		if _, ok := p1[id]; ok {
			if _, ok := p2[id]; ok {
				out = append(out, fr)
			}
		}
	}
	sort.Strings(out)
	return out, last
}
