package doubles

import (
	"bytes"
	"context"
	"errors"
	"sync"
	"time"

	"github.com/libp2p/go-libp2p/core/peer"
	"github.com/libp2p/go-libp2p/core/protocol"

	datatransfer "github.com/filecoin-project/go-data-transfer/v2"
	"github.com/filecoin-project/go-data-transfer/v2/message"
	"github.com/filecoin-project/go-data-transfer/v2/network"
)

// NCall is one recorded call on the network double.
type NCall struct {
	Op        string // send protect unprotect connect connectretry
	Peer      peer.ID
	Tag       string
	Msg       datatransfer.Message
	Err       error
	Call, Ret int64
	VT0, VT1  time.Time
}

// RecNet is a recording, programmable network.DataTransferNetwork. When Peers is set,
// successfully "sent" messages are re-encoded/decoded (real wire format) and handed to the
// destination's Receiver in a fresh goroutine after Delay(p, msg) of virtual time.
type RecNet struct {
	id peer.ID

	mu       sync.Mutex
	calls    []*NCall
	receiver network.Receiver
	// OnSend may sleep and/or return an error for a send (nil = delivered/recorded ok).
	OnSend func(to peer.ID, msg datatransfer.Message) error
	// OnConnect programs ConnectWithRetry/ConnectTo.
	OnConnect func(to peer.ID) error
	// Peers enables loop-back delivery.
	Peers map[peer.ID]*RecNet
	// Delay gives the virtual delivery delay of a message (nil = 0).
	Delay func(to peer.ID, msg datatransfer.Message) time.Duration
	// Hold, when set, captures deliveries instead of performing them; the workload releases
	// them in the order it wants via the returned funcs.
	Hold func(to peer.ID, msg datatransfer.Message, deliver func()) bool

	protected map[string]int
}

var _ network.DataTransferNetwork = (*RecNet)(nil)

func NewRecNet(id peer.ID) *RecNet { return &RecNet{id: id, protected: map[string]int{}} }

func (n *RecNet) rec(c *NCall) *NCall {
	c.Call = NextSeq()
	c.VT0 = time.Now()
	n.mu.Lock()
	n.calls = append(n.calls, c)
	n.mu.Unlock()
	return c
}
func (n *RecNet) done(c *NCall, err error) {
	n.mu.Lock()
	c.Err = err
	c.Ret = NextSeq()
	c.VT1 = time.Now()
	n.mu.Unlock()
}

func (n *RecNet) Protect(id peer.ID, tag string) {
	c := n.rec(&NCall{Op: "protect", Peer: id, Tag: tag})
	n.mu.Lock()
	n.protected[string(id)+"|"+tag]++
	n.mu.Unlock()
	n.done(c, nil)
}
func (n *RecNet) Unprotect(id peer.ID, tag string) bool {
	c := n.rec(&NCall{Op: "unprotect", Peer: id, Tag: tag})
	n.mu.Lock()
	n.protected[string(id)+"|"+tag] = 0
	n.mu.Unlock()
	n.done(c, nil)
	return false
}

// Reencode passes a message through the real wire encoding, as a receiver would see it.
func Reencode(msg datatransfer.Message) (datatransfer.Message, error) {
	var buf bytes.Buffer
	if err := msg.ToNet(&buf); err != nil {
		return nil, err
	}
	return message.FromNet(&buf)
}

func (n *RecNet) SendMessage(ctx context.Context, p peer.ID, msg datatransfer.Message) error {
	c := n.rec(&NCall{Op: "send", Peer: p, Msg: msg})
	n.mu.Lock()
	on := n.OnSend
	peers := n.Peers
	delay := n.Delay
	hold := n.Hold
	n.mu.Unlock()
	var err error
	if on != nil {
		err = on(p, msg)
	}
	if err == nil && ctx.Err() != nil {
		err = ctx.Err()
	}
	if err == nil && peers != nil {
		dst := peers[p]
		if dst == nil {
			err = errors.New("recnet: no route to peer")
		} else {
			wire, rerr := Reencode(msg)
			if rerr != nil {
				err = rerr
			} else {
				var d time.Duration
				if delay != nil {
					d = delay(p, msg)
				}
				deliver := func() { dst.Deliver(n.id, wire) }
				if hold == nil || !hold(p, msg, deliver) {
					go func() {
						if d > 0 {
							time.Sleep(d)
						}
						deliver()
					}()
				}
			}
		}
	}
	n.done(c, err)
	return err
}

// Deliver hands a (decoded) message to this node's receiver the way the stream handler does.
func (n *RecNet) Deliver(from peer.ID, msg datatransfer.Message) {
	n.mu.Lock()
	r := n.receiver
	n.mu.Unlock()
	if r == nil {
		return
	}
	ctx := context.Background()
	if msg.IsRequest() {
		rq := msg.(datatransfer.Request)
		if rq.IsRestartExistingChannelRequest() {
			r.ReceiveRestartExistingChannelRequest(ctx, from, rq)
		} else {
			r.ReceiveRequest(ctx, from, rq)
		}
	} else {
		r.ReceiveResponse(ctx, from, msg.(datatransfer.Response))
	}
}

func (n *RecNet) SetDelegate(r network.Receiver) { n.mu.Lock(); n.receiver = r; n.mu.Unlock() }

// Receiver returns the delegate registered by the manager.
func (n *RecNet) Receiver() network.Receiver { n.mu.Lock(); defer n.mu.Unlock(); return n.receiver }

func (n *RecNet) connect(op string, p peer.ID) error {
	c := n.rec(&NCall{Op: op, Peer: p})
	n.mu.Lock()
	on := n.OnConnect
	n.mu.Unlock()
	var err error
	if on != nil {
		err = on(p)
	}
	n.done(c, err)
	return err
}
func (n *RecNet) ConnectTo(ctx context.Context, p peer.ID) error { return n.connect("connect", p) }
func (n *RecNet) ConnectWithRetry(ctx context.Context, p peer.ID) error {
	return n.connect("connectretry", p)
}
func (n *RecNet) ID() peer.ID { return n.id }
func (n *RecNet) Protocol(context.Context, peer.ID) (protocol.ID, error) {
	return datatransfer.ProtocolDataTransfer1_2, nil
}

// Calls returns copies of the recorded calls.
func (n *RecNet) Calls() []NCall {
	n.mu.Lock()
	defer n.mu.Unlock()
	out := make([]NCall, len(n.calls))
	for i, c := range n.calls {
		out[i] = *c
	}
	return out
}
func (n *RecNet) Len() int { n.mu.Lock(); defer n.mu.Unlock(); return len(n.calls) }

// Sends returns the recorded sends from position `from` of the call log.
func (n *RecNet) Sends(from int) []NCall {
	var out []NCall
	for i, c := range n.Calls() {
		if i >= from && c.Op == "send" {
			out = append(out, c)
		}
	}
	return out
}

// Set helpers (under the lock, usable while other goroutines send).
func (n *RecNet) SetOnSend(f func(peer.ID, datatransfer.Message) error) {
	n.mu.Lock()
	n.OnSend = f
	n.mu.Unlock()
}
func (n *RecNet) SetHold(f func(peer.ID, datatransfer.Message, func()) bool) {
	n.mu.Lock()
	n.Hold = f
	n.mu.Unlock()
}
func (n *RecNet) SetDelay(f func(peer.ID, datatransfer.Message) time.Duration) {
	n.mu.Lock()
	n.Delay = f
	n.mu.Unlock()
}
func (n *RecNet) SetOnConnect(f func(peer.ID) error) { n.mu.Lock(); n.OnConnect = f; n.mu.Unlock() }

// Link connects two network doubles for loop-back delivery.
func Link(nets ...*RecNet) {
	m := map[peer.ID]*RecNet{}
	for _, n := range nets {
		m[n.id] = n
	}
	for _, n := range nets {
		n.mu.Lock()
		n.Peers = m
		n.mu.Unlock()
	}
}
