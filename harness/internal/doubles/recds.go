// Package doubles holds the thread-safe recording doubles that sit at the library's
// boundaries (datastore, transport, graphsync, network, validator, environment, subscribers).
package doubles

import (
	"context"
	"runtime"
	"sync"
	"time"

	"github.com/ipfs/go-datastore"
	"github.com/ipfs/go-datastore/query"
	dss "github.com/ipfs/go-datastore/sync"
)

// Write is one entry of the datastore write log.
type Write struct {
	Seq int
	Key string
	Val []byte
	Del bool
}

// RecDS wraps a map datastore, logs every Put/Delete (the write log) and lets a workload
// stall (virtual sleep) or fail individual calls.
type RecDS struct {
	inner datastore.Batching

	mu  sync.Mutex
	log []Write
	// Hook is consulted before every operation: op in {get,put,delete,has,query}.
	// It may sleep (virtual time inside a bubble) and/or return an error to inject.
	Hook func(op, key string) error
	gets int
}

var _ datastore.Batching = (*RecDS)(nil)

func NewRecDS() *RecDS {
	return &RecDS{inner: dss.MutexWrap(datastore.NewMapDatastore())}
}

// NewRecDSFrom builds a datastore pre-populated with the given prefix of a write log.
func NewRecDSFrom(log []Write) *RecDS {
	r := NewRecDS()
	ctx := context.Background()
	for _, w := range log {
		if w.Del {
			r.inner.Delete(ctx, datastore.NewKey(w.Key))
		} else {
			r.inner.Put(ctx, datastore.NewKey(w.Key), w.Val)
		}
	}
	return r
}

func (r *RecDS) hook(op, key string) error {
	r.mu.Lock()
	h := r.Hook
	r.mu.Unlock()
	if h != nil {
		return h(op, key)
	}
	return nil
}

// SetHook installs the hook under the lock.
func (r *RecDS) SetHook(h func(op, key string) error) { r.mu.Lock(); r.Hook = h; r.mu.Unlock() }

// Log returns a copy of the write log.
func (r *RecDS) Log() []Write {
	r.mu.Lock()
	defer r.mu.Unlock()
	return append([]Write(nil), r.log...)
}

// LogLen returns the current length of the write log.
func (r *RecDS) LogLen() int { r.mu.Lock(); defer r.mu.Unlock(); return len(r.log) }

// Snapshot returns all key/value pairs currently stored.
func (r *RecDS) Snapshot() map[string][]byte {
	out := map[string][]byte{}
	res, err := r.inner.Query(context.Background(), query.Query{})
	if err != nil {
		return out
	}
	defer res.Close()
	for e := range res.Next() {
		if e.Error != nil {
			break
		}
		out[e.Key] = append([]byte(nil), e.Value...)
	}
	return out
}

func (r *RecDS) Get(ctx context.Context, key datastore.Key) ([]byte, error) {
	if err := r.hook("get", key.String()); err != nil {
		return nil, err
	}
	return r.inner.Get(ctx, key)
}
func (r *RecDS) Has(ctx context.Context, key datastore.Key) (bool, error) {
	if err := r.hook("has", key.String()); err != nil {
		return false, err
	}
	return r.inner.Has(ctx, key)
}
func (r *RecDS) GetSize(ctx context.Context, key datastore.Key) (int, error) {
	return r.inner.GetSize(ctx, key)
}
func (r *RecDS) Query(ctx context.Context, q query.Query) (query.Results, error) {
	if err := r.hook("query", q.Prefix); err != nil {
		return nil, err
	}
	return r.inner.Query(ctx, q)
}
func (r *RecDS) Put(ctx context.Context, key datastore.Key, value []byte) error {
	if err := r.hook("put", key.String()); err != nil {
		return err
	}
	// the log append and the inner write are one atomic step w.r.t. other writers
	r.mu.Lock()
	defer r.mu.Unlock()
	if err := r.inner.Put(ctx, key, value); err != nil {
		return err
	}
	r.log = append(r.log, Write{Seq: len(r.log), Key: key.String(), Val: append([]byte(nil), value...)})
	return nil
}
func (r *RecDS) Delete(ctx context.Context, key datastore.Key) error {
	if err := r.hook("delete", key.String()); err != nil {
		return err
	}
	r.mu.Lock()
	defer r.mu.Unlock()
	if err := r.inner.Delete(ctx, key); err != nil {
		return err
	}
	r.log = append(r.log, Write{Seq: len(r.log), Key: key.String(), Del: true})
	return nil
}
func (r *RecDS) Sync(ctx context.Context, prefix datastore.Key) error { return nil }
func (r *RecDS) Close() error                                         { return nil }
func (r *RecDS) Batch(ctx context.Context) (datastore.Batch, error) {
	return datastore.NewBasicBatch(r), nil
}

// Stall returns a hook that sleeps d (virtual) on operations matching op ("" = all).
func Stall(op string, d time.Duration) func(string, string) error {
	return func(o, _ string) error {
		if op == "" || op == o {
			time.Sleep(d)
		}
		return nil
	}
}

// Yield perturbs the schedule without touching the (virtual) clock: n cooperative yields.
// Inside a synctest bubble a virtual sleep must never happen while a library mutex is held
// that other goroutines contend for (a goroutine blocked on a mutex is not "durably" blocked,
// so the bubble's clock could never advance); Yield is the safe substitute there.
func Yield(n int) {
	for i := 0; i < n; i++ {
		runtime.Gosched()
	}
}
