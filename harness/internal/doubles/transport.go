package doubles

import (
	"context"
	"sync"
	"sync/atomic"
	"time"

	ipld "github.com/ipld/go-ipld-prime"
	"github.com/ipld/go-ipld-prime/datamodel"
	"github.com/libp2p/go-libp2p/core/peer"

	datatransfer "github.com/filecoin-project/go-data-transfer/v2"
)

// Seq is one global monotonic counter used to stamp every recorded call (call and return).
var seqCounter atomic.Int64

// NextSeq returns the next global stamp.
func NextSeq() int64 { return seqCounter.Add(1) }

// TCall is one recorded call on the transport double.
type TCall struct {
	Op         string // open close pause resume cleanup shutdown sethandler
	Chid       datatransfer.ChannelID
	Msg        datatransfer.Message
	Channel    datatransfer.ChannelState
	DataSender peer.ID
	Root       ipld.Link
	Selector   datamodel.Node
	Err        error
	Call, Ret  int64 // global stamps
	VT0, VT1   time.Time
}

// RecTransport is a recording, programmable datatransfer.PauseableTransport.
type RecTransport struct {
	mu     sync.Mutex
	calls  []*TCall
	events datatransfer.EventsHandler
	// On is consulted for every call before it is recorded as returned; it may sleep
	// (virtual) and return an error to inject. Called without the lock held.
	On func(c *TCall) error
	// Probe receives every ChannelState handed to the transport (C19 totality).
	Probe func(where string, st datatransfer.ChannelState)
}

var _ datatransfer.PauseableTransport = (*RecTransport)(nil)

func NewRecTransport() *RecTransport { return &RecTransport{} }

func (t *RecTransport) do(c *TCall) error {
	c.Call = NextSeq()
	c.VT0 = time.Now()
	t.mu.Lock()
	t.calls = append(t.calls, c)
	on := t.On
	probe := t.Probe
	t.mu.Unlock()
	if c.Channel != nil && probe != nil {
		probe("transport."+c.Op, c.Channel)
	}
	var err error
	if on != nil {
		err = on(c)
	}
	t.mu.Lock()
	c.Err = err
	c.Ret = NextSeq()
	c.VT1 = time.Now()
	t.mu.Unlock()
	return err
}

func (t *RecTransport) SetOn(f func(c *TCall) error) { t.mu.Lock(); t.On = f; t.mu.Unlock() }

func (t *RecTransport) OpenChannel(ctx context.Context, dataSender peer.ID, chid datatransfer.ChannelID, root ipld.Link, stor datamodel.Node, channel datatransfer.ChannelState, msg datatransfer.Message) error {
	return t.do(&TCall{Op: "open", Chid: chid, Msg: msg, Channel: channel, DataSender: dataSender, Root: root, Selector: stor})
}
func (t *RecTransport) CloseChannel(ctx context.Context, chid datatransfer.ChannelID) error {
	return t.do(&TCall{Op: "close", Chid: chid})
}
func (t *RecTransport) PauseChannel(ctx context.Context, chid datatransfer.ChannelID) error {
	return t.do(&TCall{Op: "pause", Chid: chid})
}
func (t *RecTransport) ResumeChannel(ctx context.Context, msg datatransfer.Message, chid datatransfer.ChannelID) error {
	return t.do(&TCall{Op: "resume", Chid: chid, Msg: msg})
}
func (t *RecTransport) CleanupChannel(chid datatransfer.ChannelID) {
	t.do(&TCall{Op: "cleanup", Chid: chid})
}
func (t *RecTransport) Shutdown(ctx context.Context) error {
	return t.do(&TCall{Op: "shutdown"})
}
func (t *RecTransport) SetEventHandler(events datatransfer.EventsHandler) error {
	t.mu.Lock()
	defer t.mu.Unlock()
	if t.events != nil {
		return datatransfer.ErrHandlerAlreadySet
	}
	t.events = events
	return nil
}

// Events returns the handler registered by the manager.
func (t *RecTransport) Events() datatransfer.EventsHandler {
	t.mu.Lock()
	defer t.mu.Unlock()
	return t.events
}

// Calls returns a snapshot (copies) of the recorded calls.
func (t *RecTransport) Calls() []TCall {
	t.mu.Lock()
	defer t.mu.Unlock()
	out := make([]TCall, len(t.calls))
	for i, c := range t.calls {
		out[i] = *c
	}
	return out
}

// CallsFrom returns the calls recorded at positions >= from.
func (t *RecTransport) CallsFrom(from int) []TCall {
	all := t.Calls()
	if from > len(all) {
		return nil
	}
	return all[from:]
}

// Len returns the number of recorded calls.
func (t *RecTransport) Len() int { t.mu.Lock(); defer t.mu.Unlock(); return len(t.calls) }

// CountOp counts calls of the given op for the given channel (zero chid = any).
func CountOp(calls []TCall, op string, chid datatransfer.ChannelID) int {
	n := 0
	for _, c := range calls {
		if c.Op == op && (chid == datatransfer.ChannelID{} || c.Chid == chid) {
			n++
		}
	}
	return n
}
