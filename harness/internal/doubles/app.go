package doubles

import (
	"bytes"
	"encoding/hex"
	"fmt"
	"sync"
	"time"

	"github.com/ipfs/go-cid"
	"github.com/ipld/go-ipld-prime/codec/dagcbor"
	"github.com/ipld/go-ipld-prime/datamodel"
	"github.com/ipld/go-ipld-prime/schema"
	"github.com/libp2p/go-libp2p/core/peer"

	datatransfer "github.com/filecoin-project/go-data-transfer/v2"
)

// ---------------------------------------------------------------- environment

// ECall is a recorded call on the channel environment double.
type ECall struct {
	Op        string // cleanup protect unprotect
	Chid      datatransfer.ChannelID
	Peer      peer.ID
	Tag       string
	Call, Ret int64
}

// RecEnv is a recording channels.ChannelEnvironment.
type RecEnv struct {
	Self peer.ID
	mu   sync.Mutex
	log  []*ECall
	// OnCleanup may stall (virtual) to hold the cleanup open.
	OnCleanup func(chid datatransfer.ChannelID)
}

func NewRecEnv(self peer.ID) *RecEnv { return &RecEnv{Self: self} }

func (e *RecEnv) add(c *ECall) *ECall {
	c.Call = NextSeq()
	e.mu.Lock()
	e.log = append(e.log, c)
	e.mu.Unlock()
	return c
}
func (e *RecEnv) fin(c *ECall) { e.mu.Lock(); c.Ret = NextSeq(); e.mu.Unlock() }

func (e *RecEnv) Protect(id peer.ID, tag string) {
	e.fin(e.add(&ECall{Op: "protect", Peer: id, Tag: tag}))
}
func (e *RecEnv) Unprotect(id peer.ID, tag string) bool {
	e.fin(e.add(&ECall{Op: "unprotect", Peer: id, Tag: tag}))
	return false
}
func (e *RecEnv) ID() peer.ID { return e.Self }
func (e *RecEnv) CleanupChannel(chid datatransfer.ChannelID) {
	c := e.add(&ECall{Op: "cleanup", Chid: chid})
	e.mu.Lock()
	on := e.OnCleanup
	e.mu.Unlock()
	if on != nil {
		on(chid)
	}
	e.fin(c)
}
func (e *RecEnv) SetOnCleanup(f func(datatransfer.ChannelID)) {
	e.mu.Lock()
	e.OnCleanup = f
	e.mu.Unlock()
}
func (e *RecEnv) Calls() []ECall {
	e.mu.Lock()
	defer e.mu.Unlock()
	out := make([]ECall, len(e.log))
	for i, c := range e.log {
		out[i] = *c
	}
	return out
}

// ---------------------------------------------------------------- validator

// VCall is one recorded validator call.
type VCall struct {
	Kind     string // push pull restart
	Chid     datatransfer.ChannelID
	Peer     peer.ID
	Voucher  datamodel.Node
	BaseCid  cid.Cid
	Selector datamodel.Node
	State    *StateView // restart only
	Result   datatransfer.ValidationResult
	Err      error
	Seq      int64
	// RegisteredFor is the voucher type of the registration through which the call arrived
	// (only set when the validator was registered with For)
	RegisteredFor string
}

// RecValidator is a programmable recording RequestValidator. Outcome(kind, n) gives the result of the
// n-th call of that kind; nil Outcome = accept.
type RecValidator struct {
	mu      sync.Mutex
	calls   []VCall
	Outcome func(kind string, n int, chid datatransfer.ChannelID) (datatransfer.ValidationResult, error)
	Probe   func(where string, st datatransfer.ChannelState)
	Stall   time.Duration
	n       map[string]int
}

var _ datatransfer.RequestValidator = (*RecValidator)(nil)

func NewRecValidator() *RecValidator { return &RecValidator{n: map[string]int{}} }

func (v *RecValidator) SetOutcome(f func(kind string, n int, chid datatransfer.ChannelID) (datatransfer.ValidationResult, error)) {
	v.mu.Lock()
	v.Outcome = f
	v.mu.Unlock()
}

func (v *RecValidator) call(c VCall) (datatransfer.ValidationResult, error) {
	v.mu.Lock()
	k := v.n[c.Kind]
	v.n[c.Kind]++
	out := v.Outcome
	stall := v.Stall
	v.mu.Unlock()
	if stall > 0 {
		time.Sleep(stall)
	}
	res, err := datatransfer.ValidationResult{Accepted: true}, error(nil)
	if out != nil {
		res, err = out(c.Kind, k, c.Chid)
	}
	c.Result, c.Err, c.Seq = res, err, NextSeq()
	v.mu.Lock()
	v.calls = append(v.calls, c)
	v.mu.Unlock()
	return res, err
}
func (v *RecValidator) ValidatePush(chid datatransfer.ChannelID, sender peer.ID, voucher datamodel.Node, baseCid cid.Cid, selector datamodel.Node) (datatransfer.ValidationResult, error) {
	return v.call(VCall{Kind: "push", Chid: chid, Peer: sender, Voucher: voucher, BaseCid: baseCid, Selector: selector})
}
func (v *RecValidator) ValidatePull(chid datatransfer.ChannelID, receiver peer.ID, voucher datamodel.Node, baseCid cid.Cid, selector datamodel.Node) (datatransfer.ValidationResult, error) {
	return v.call(VCall{Kind: "pull", Chid: chid, Peer: receiver, Voucher: voucher, BaseCid: baseCid, Selector: selector})
}
func (v *RecValidator) ValidateRestart(chid datatransfer.ChannelID, st datatransfer.ChannelState) (datatransfer.ValidationResult, error) {
	v.mu.Lock()
	probe := v.Probe
	v.mu.Unlock()
	if probe != nil {
		probe("validator.restart", st)
	}
	sv, _ := ViewOf(st)
	return v.call(VCall{Kind: "restart", Chid: chid, State: sv})
}
func (v *RecValidator) Calls() []VCall {
	v.mu.Lock()
	defer v.mu.Unlock()
	return append([]VCall(nil), v.calls...)
}

// ---------------------------------------------------------------- state views

// CBOR returns canonical DAG-CBOR bytes (hex) of a node; null/absent = "f6".
func CBOR(n datamodel.Node) string {
	if n == nil {
		return "f6"
	}
	if tn, ok := n.(schema.TypedNode); ok {
		n = tn.Representation()
	}
	var b bytes.Buffer
	if err := dagcbor.Encode(n, &b); err != nil {
		return "ERR:" + err.Error()
	}
	return hex.EncodeToString(b.Bytes())
}

// TV is a comparable rendering of a TypedVoucher.
type TV struct {
	Type string
	CBOR string
}

func TVOf(v datatransfer.TypedVoucher) TV { return TV{string(v.Type), CBOR(v.Voucher)} }

// StateView is a plain, comparable copy of everything a ChannelState exposes.
type StateView struct {
	Chid                        datatransfer.ChannelID
	TransferID                  datatransfer.TransferID
	Self, Other                 peer.ID
	Sender, Recipient           peer.ID
	BaseCID                     string
	Selector                    string
	Status                      datatransfer.Status
	Message                     string
	Queued, Sent, Received      uint64
	QueuedIdx, SentIdx, RecvIdx int64
	TotalSize                   uint64
	DataLimit                   uint64
	RequiresFinalization        bool
	InitiatorPaused             bool
	ResponderPaused             bool
	BothPaused, SelfPaused      bool
	IsPull                      bool
	Voucher                     TV
	Vouchers, Results           []TV
	LastVoucher, LastResult     TV
	Stages                      string
	NStages                     int
}

// ViewOf calls every accessor of a ChannelState under recover. panicAt is "" when all
// accessors returned, else the name of the first accessor that panicked (with the value).
func ViewOf(st datatransfer.ChannelState) (v *StateView, panicAt string) {
	v = &StateView{}
	try := func(name string, f func()) {
		defer func() {
			if r := recover(); r != nil && panicAt == "" {
				panicAt = fmt.Sprintf("%s: %v", name, r)
			}
		}()
		f()
	}
	try("ChannelID", func() { v.Chid = st.ChannelID() })
	try("TransferID", func() { v.TransferID = st.TransferID() })
	try("SelfPeer", func() { v.Self = st.SelfPeer() })
	try("OtherPeer", func() { v.Other = st.OtherPeer() })
	try("Sender", func() { v.Sender = st.Sender() })
	try("Recipient", func() { v.Recipient = st.Recipient() })
	try("BaseCID", func() { v.BaseCID = st.BaseCID().String() })
	try("Selector", func() { v.Selector = CBOR(st.Selector()) })
	try("Status", func() { v.Status = st.Status() })
	try("Message", func() { v.Message = st.Message() })
	try("Queued", func() { v.Queued = st.Queued() })
	try("Sent", func() { v.Sent = st.Sent() })
	try("Received", func() { v.Received = st.Received() })
	try("QueuedCidsTotal", func() { v.QueuedIdx = st.QueuedCidsTotal() })
	try("SentCidsTotal", func() { v.SentIdx = st.SentCidsTotal() })
	try("ReceivedCidsTotal", func() { v.RecvIdx = st.ReceivedCidsTotal() })
	try("TotalSize", func() { v.TotalSize = st.TotalSize() })
	try("DataLimit", func() { v.DataLimit = st.DataLimit() })
	try("RequiresFinalization", func() { v.RequiresFinalization = st.RequiresFinalization() })
	try("InitiatorPaused", func() { v.InitiatorPaused = st.InitiatorPaused() })
	try("ResponderPaused", func() { v.ResponderPaused = st.ResponderPaused() })
	try("BothPaused", func() { v.BothPaused = st.BothPaused() })
	try("SelfPaused", func() { v.SelfPaused = st.SelfPaused() })
	try("IsPull", func() { v.IsPull = st.IsPull() })
	try("Voucher", func() { v.Voucher = TVOf(st.Voucher()) })
	try("Vouchers", func() {
		for _, x := range st.Vouchers() {
			v.Vouchers = append(v.Vouchers, TVOf(x))
		}
	})
	try("VoucherResults", func() {
		for _, x := range st.VoucherResults() {
			v.Results = append(v.Results, TVOf(x))
		}
	})
	try("LastVoucher", func() { v.LastVoucher = TVOf(st.LastVoucher()) })
	try("LastVoucherResult", func() { v.LastResult = TVOf(st.LastVoucherResult()) })
	try("Stages", func() {
		s := st.Stages()
		if s != nil {
			v.NStages = len(s.Stages)
			var b bytes.Buffer
			for _, sg := range s.Stages {
				if sg == nil {
					b.WriteString("<nil>;")
					continue
				}
				fmt.Fprintf(&b, "%s|%s|%d|%d[", sg.Name, sg.Description, sg.CreatedTime.Time().UnixNano(), sg.UpdatedTime.Time().UnixNano())
				for _, l := range sg.Logs {
					if l != nil {
						fmt.Fprintf(&b, "%s@%d,", l.Log, l.UpdatedTime.Time().UnixNano())
					}
				}
				b.WriteString("];")
			}
			v.Stages = b.String()
		}
	})
	return v, panicAt
}

// Core returns the view with the stage log (timestamps, observability only) blanked, for
// comparisons of "observable fields" that should not depend on log text.
func (v *StateView) Core() StateView {
	c := *v
	c.Stages = ""
	c.NStages = 0
	return c
}

// String renders a view compactly.
func (v *StateView) String() string {
	return fmt.Sprintf("%s q=%d s=%d r=%d qi=%d si=%d ri=%d ip=%v rp=%v lim=%d fin=%v nv=%d nr=%d msg=%q",
		v.Status, v.Queued, v.Sent, v.Received, v.QueuedIdx, v.SentIdx, v.RecvIdx, v.InitiatorPaused, v.ResponderPaused,
		v.DataLimit, v.RequiresFinalization, len(v.Vouchers), len(v.Results), v.Message)
}

// Diff lists the names of fields that differ between two views (stage log ignored unless withStages).
func Diff(a, b *StateView, withStages bool) []string {
	var d []string
	add := func(name string, neq bool) {
		if neq {
			d = append(d, name)
		}
	}
	add("Chid", a.Chid != b.Chid)
	add("TransferID", a.TransferID != b.TransferID)
	add("Self", a.Self != b.Self)
	add("Other", a.Other != b.Other)
	add("Sender", a.Sender != b.Sender)
	add("Recipient", a.Recipient != b.Recipient)
	add("BaseCID", a.BaseCID != b.BaseCID)
	add("Selector", a.Selector != b.Selector)
	add("Status", a.Status != b.Status)
	add("Message", a.Message != b.Message)
	add("Queued", a.Queued != b.Queued)
	add("Sent", a.Sent != b.Sent)
	add("Received", a.Received != b.Received)
	add("QueuedIdx", a.QueuedIdx != b.QueuedIdx)
	add("SentIdx", a.SentIdx != b.SentIdx)
	add("RecvIdx", a.RecvIdx != b.RecvIdx)
	add("TotalSize", a.TotalSize != b.TotalSize)
	add("DataLimit", a.DataLimit != b.DataLimit)
	add("RequiresFinalization", a.RequiresFinalization != b.RequiresFinalization)
	add("InitiatorPaused", a.InitiatorPaused != b.InitiatorPaused)
	add("ResponderPaused", a.ResponderPaused != b.ResponderPaused)
	add("BothPaused", a.BothPaused != b.BothPaused)
	add("SelfPaused", a.SelfPaused != b.SelfPaused)
	add("IsPull", a.IsPull != b.IsPull)
	add("Voucher", a.Voucher != b.Voucher)
	add("Vouchers", !tvEq(a.Vouchers, b.Vouchers))
	add("Results", !tvEq(a.Results, b.Results))
	add("LastVoucher", a.LastVoucher != b.LastVoucher)
	add("LastResult", a.LastResult != b.LastResult)
	if withStages {
		add("Stages", a.Stages != b.Stages)
	}
	return d
}

func tvEq(a, b []TV) bool {
	if len(a) != len(b) {
		return false
	}
	for i := range a {
		if a[i] != b[i] {
			return false
		}
	}
	return true
}

// ---------------------------------------------------------------- subscriber log

// SEvent is one subscriber notification.
type SEvent struct {
	Seq   int64
	Code  datatransfer.EventCode
	Msg   string
	View  *StateView
	Panic string // accessor panic, if any (C19)
	VT    time.Time
}

// SubLog is a thread-safe recording subscriber.
type SubLog struct {
	mu  sync.Mutex
	evs []SEvent
	// Inner is called after recording (re-entrant behaviour, stalls).
	Inner func(ev datatransfer.Event, st datatransfer.ChannelState)
}

func (s *SubLog) Fn() datatransfer.Subscriber {
	return func(ev datatransfer.Event, st datatransfer.ChannelState) {
		v, p := ViewOf(st)
		s.mu.Lock()
		s.evs = append(s.evs, SEvent{Seq: NextSeq(), Code: ev.Code, Msg: ev.Message, View: v, Panic: p, VT: time.Now()})
		in := s.Inner
		s.mu.Unlock()
		if in != nil {
			in(ev, st)
		}
	}
}
func (s *SubLog) Events() []SEvent {
	s.mu.Lock()
	defer s.mu.Unlock()
	return append([]SEvent(nil), s.evs...)
}
func (s *SubLog) Len() int { s.mu.Lock(); defer s.mu.Unlock(); return len(s.evs) }

// For returns the events of one channel.
func (s *SubLog) For(chid datatransfer.ChannelID) []SEvent {
	var out []SEvent
	for _, e := range s.Events() {
		if e.View.Chid == chid {
			out = append(out, e)
		}
	}
	return out
}

// ---------------------------------------------------------------- fake channel state

// FakeState is a ChannelState with harness-chosen contents (for driving components that only
// read states, e.g. the channel monitor).
type FakeState struct {
	ID  datatransfer.ChannelID
	Me  peer.ID
	St  datatransfer.Status
	Msg string
}

var _ datatransfer.ChannelState = FakeState{}

func (f FakeState) TransferID() datatransfer.TransferID         { return f.ID.ID }
func (f FakeState) BaseCID() cid.Cid                            { return cid.Undef }
func (f FakeState) Selector() datamodel.Node                    { return nil }
func (f FakeState) Voucher() datatransfer.TypedVoucher          { return datatransfer.TypedVoucher{} }
func (f FakeState) Sender() peer.ID                             { return f.ID.Initiator }
func (f FakeState) Recipient() peer.ID                          { return f.ID.Responder }
func (f FakeState) TotalSize() uint64                           { return 0 }
func (f FakeState) IsPull() bool                                { return false }
func (f FakeState) ChannelID() datatransfer.ChannelID           { return f.ID }
func (f FakeState) OtherPeer() peer.ID                          { return f.ID.OtherParty(f.Me) }
func (f FakeState) SelfPeer() peer.ID                           { return f.Me }
func (f FakeState) Status() datatransfer.Status                 { return f.St }
func (f FakeState) Sent() uint64                                { return 0 }
func (f FakeState) Received() uint64                            { return 0 }
func (f FakeState) Message() string                             { return f.Msg }
func (f FakeState) Vouchers() []datatransfer.TypedVoucher       { return nil }
func (f FakeState) VoucherResults() []datatransfer.TypedVoucher { return nil }
func (f FakeState) LastVoucher() datatransfer.TypedVoucher      { return datatransfer.TypedVoucher{} }
func (f FakeState) LastVoucherResult() datatransfer.TypedVoucher {
	return datatransfer.TypedVoucher{}
}
func (f FakeState) ReceivedCidsTotal() int64            { return 0 }
func (f FakeState) QueuedCidsTotal() int64              { return 0 }
func (f FakeState) SentCidsTotal() int64                { return 0 }
func (f FakeState) Queued() uint64                      { return 0 }
func (f FakeState) DataLimit() uint64                   { return 0 }
func (f FakeState) RequiresFinalization() bool          { return false }
func (f FakeState) InitiatorPaused() bool               { return false }
func (f FakeState) ResponderPaused() bool               { return false }
func (f FakeState) BothPaused() bool                    { return false }
func (f FakeState) SelfPaused() bool                    { return false }
func (f FakeState) Stages() *datatransfer.ChannelStages { return &datatransfer.ChannelStages{} }

// For returns a view of the validator that stamps every call with the voucher type it was
// registered for (VCall.RegisteredFor), so that a workload that registers v.For(t) for each type t
// can tell WHICH registration the library consulted.
func (v *RecValidator) For(typ string) datatransfer.RequestValidator { return typedValidator{v, typ} }

type typedValidator struct {
	v   *RecValidator
	typ string
}

func (t typedValidator) ValidatePush(chid datatransfer.ChannelID, sender peer.ID, voucher datamodel.Node, baseCid cid.Cid, selector datamodel.Node) (datatransfer.ValidationResult, error) {
	return t.v.call(VCall{Kind: "push", Chid: chid, Peer: sender, Voucher: voucher, BaseCid: baseCid, Selector: selector, RegisteredFor: t.typ})
}
func (t typedValidator) ValidatePull(chid datatransfer.ChannelID, receiver peer.ID, voucher datamodel.Node, baseCid cid.Cid, selector datamodel.Node) (datatransfer.ValidationResult, error) {
	return t.v.call(VCall{Kind: "pull", Chid: chid, Peer: receiver, Voucher: voucher, BaseCid: baseCid, Selector: selector, RegisteredFor: t.typ})
}
func (t typedValidator) ValidateRestart(chid datatransfer.ChannelID, st datatransfer.ChannelState) (datatransfer.ValidationResult, error) {
	t.v.mu.Lock()
	probe := t.v.Probe
	t.v.mu.Unlock()
	if probe != nil {
		probe("validator.restart", st)
	}
	sv, _ := ViewOf(st)
	return t.v.call(VCall{Kind: "restart", Chid: chid, State: sv, RegisteredFor: t.typ})
}
