package doubles

import (
	"context"
	"errors"
	"fmt"
	"sync"
	"time"

	"github.com/ipfs/go-graphsync"
	ipld "github.com/ipld/go-ipld-prime"
	"github.com/ipld/go-ipld-prime/datamodel"
	"github.com/libp2p/go-libp2p/core/peer"

	datatransfer "github.com/filecoin-project/go-data-transfer/v2"
	"github.com/filecoin-project/go-data-transfer/v2/transport/graphsync/testharness"
)

// GSCall is one recorded call on the graphsync double.
type GSCall struct {
	Op        string // request cancel pause unpause update regopt unregopt
	ID        graphsync.RequestID
	Peer      peer.ID
	Exts      map[graphsync.ExtensionName]datamodel.Node
	Name      string
	Err       error
	Call, Ret int64
}

type gsReq struct {
	id     graphsync.RequestID
	peer   peer.ID
	rc     chan graphsync.ResponseProgress
	ec     chan error
	closed bool
}

// FakeGS is a thread-safe graphsync.GraphExchange double. Like go-graphsync it runs the
// outgoing-request hook before Request returns. The workload fires every registered hook and
// listener through the exported fields (read-only after SetEventHandler).
type FakeGS struct {
	mu    sync.Mutex
	calls []*GSCall
	reqs  map[graphsync.RequestID]*gsReq
	opts  map[string]int // name -> currently registered (0/1), with history in calls
	// OnCancel decides what a Cancel does: "complete" (default: the request's channels close with
	// RequestClientCancelledErr, as graphsync does), "ignore" (request never completes), or an error.
	CancelMode string
	CancelErr  error
	// Stall, when >0, makes Cancel/Pause/Unpause take that long (virtual time)
	Stall time.Duration
	// BeforeHook, when set, runs inside Request right before the outgoing-request hook
	// (lets a workload place another operation exactly there)
	BeforeHook func()
	// LoopModel (default on): go-graphsync runs its request manager and its response manager as
	// single-threaded event loops. Outgoing-request and incoming-response hooks run INSIDE the
	// request manager's loop; incoming-request and request-updated hooks and the requestor-cancelled
	// listener run INSIDE the response manager's loop; and Request/Cancel/Pause/Unpause/SendUpdate
	// are messages to the owning loop whose reply the caller waits for (PauseResponse and
	// UnpauseResponse do not even watch the caller's context while waiting). The double models each
	// loop as a binary semaphore held while a hook runs and while one of those calls is served, so a
	// caller that holds a lock the hook needs meets the same fate as with the real library.
	// (Block hooks and completion/network listeners run on other goroutines in go-graphsync and
	// take no loop here.)
	LoopModel bool
	// LoopGate, when set, is called with the loop held right before a hook is invoked ("the
	// message has been queued but not yet handled"): lets a workload place another call exactly there
	LoopGate          func(loop, hook string)
	reqLoop, respLoop chan struct{}

	OutgoingRequestHook               graphsync.OnOutgoingRequestHook
	IncomingBlockHook                 graphsync.OnIncomingBlockHook
	OutgoingBlockHook                 graphsync.OnOutgoingBlockHook
	IncomingRequestProcessingListener graphsync.OnRequestProcessingListener
	OutgoingRequestProcessingListener graphsync.OnRequestProcessingListener
	IncomingRequestHook               graphsync.OnIncomingRequestHook
	CompletedResponseListener         graphsync.OnResponseCompletedListener
	RequestUpdatedHook                graphsync.OnRequestUpdatedHook
	IncomingResponseHook              graphsync.OnIncomingResponseHook
	RequestorCancelledListener        graphsync.OnRequestorCancelledListener
	BlockSentListener                 graphsync.OnBlockSentListener
	NetworkErrorListener              graphsync.OnNetworkErrorListener
	ReceiverNetworkErrorListener      graphsync.OnReceiverNetworkErrorListener
	unregistered                      int
	outHookRaw                        graphsync.OnOutgoingRequestHook
}

var _ graphsync.GraphExchange = (*FakeGS)(nil)

func NewFakeGS() *FakeGS {
	return &FakeGS{reqs: map[graphsync.RequestID]*gsReq{}, opts: map[string]int{}, LoopModel: true, reqLoop: make(chan struct{}, 1), respLoop: make(chan struct{}, 1)}
}

// enter takes a manager loop (a channel semaphore, so that waiting for it counts as blocked
// inside a synctest bubble) and returns the function that leaves it.
func (f *FakeGS) enter(l chan struct{}) func() {
	f.mu.Lock()
	on := f.LoopModel
	f.mu.Unlock()
	if !on {
		return func() {}
	}
	l <- struct{}{}
	return func() { <-l }
}

func (f *FakeGS) gate(loop, hook string) {
	f.mu.Lock()
	g := f.LoopGate
	f.mu.Unlock()
	if g != nil {
		g(loop, hook)
	}
}

// loopOf is the loop that serves calls about id: the request manager for our own requests, the
// response manager for everything else.
func (f *FakeGS) loopOf(id graphsync.RequestID) chan struct{} {
	f.mu.Lock()
	defer f.mu.Unlock()
	if _, ours := f.reqs[id]; ours {
		return f.reqLoop
	}
	return f.respLoop
}

func (f *FakeGS) rec(c *GSCall) *GSCall {
	c.Call = NextSeq()
	f.mu.Lock()
	f.calls = append(f.calls, c)
	f.mu.Unlock()
	return c
}
func (f *FakeGS) fin(c *GSCall, err error) {
	f.mu.Lock()
	c.Err = err
	c.Ret = NextSeq()
	f.mu.Unlock()
}

func extMap(exts []graphsync.ExtensionData) map[graphsync.ExtensionName]datamodel.Node {
	m := map[graphsync.ExtensionName]datamodel.Node{}
	for _, e := range exts {
		m[e.Name] = e.Data
	}
	return m
}

func (f *FakeGS) Request(ctx context.Context, p peer.ID, root ipld.Link, selector ipld.Node, extensions ...graphsync.ExtensionData) (<-chan graphsync.ResponseProgress, <-chan error) {
	id := graphsync.NewRequestID()
	c := f.rec(&GSCall{Op: "request", ID: id, Peer: p, Exts: extMap(extensions)})
	rq := &gsReq{id: id, peer: p, rc: make(chan graphsync.ResponseProgress), ec: make(chan error, 8)}
	f.mu.Lock()
	f.reqs[id] = rq
	hook := f.outHookRaw
	before := f.BeforeHook
	f.mu.Unlock()
	leave := f.enter(f.reqLoop)
	if before != nil {
		before()
	}
	if hook != nil {
		hook(p, testharness.NewFakeRequest(id, c.Exts, graphsync.RequestTypeNew), &testharness.FakeOutgoingRequestHookActions{})
	}
	leave()
	f.fin(c, nil)
	return rq.rc, rq.ec
}

// Complete ends an outgoing request: its response channel closes and err (may be nil) is the
// last value on its error channel.
func (f *FakeGS) Complete(id graphsync.RequestID, err error) bool {
	f.mu.Lock()
	rq := f.reqs[id]
	if rq == nil || rq.closed {
		f.mu.Unlock()
		return false
	}
	rq.closed = true
	f.mu.Unlock()
	close(rq.rc)
	if err != nil {
		rq.ec <- err
	}
	close(rq.ec)
	return true
}

// ReportError delivers a NON-terminal error on an outgoing request's error channel (go-graphsync
// reports e.g. RemoteMissingBlockErr this way and carries on); the request stays open.
func (f *FakeGS) ReportError(id graphsync.RequestID, err error) bool {
	f.mu.Lock()
	rq := f.reqs[id]
	if rq == nil || rq.closed {
		f.mu.Unlock()
		return false
	}
	f.mu.Unlock()
	select {
	case rq.ec <- err:
		return true
	default:
		return false
	}
}

func (f *FakeGS) stall() {
	f.mu.Lock()
	d := f.Stall
	f.mu.Unlock()
	if d > 0 {
		time.Sleep(d)
	}
}

func (f *FakeGS) Cancel(ctx context.Context, id graphsync.RequestID) error {
	c := f.rec(&GSCall{Op: "cancel", ID: id})
	defer f.enter(f.loopOf(id))()
	f.stall()
	f.mu.Lock()
	mode, cerr := f.CancelMode, f.CancelErr
	_, known := f.reqs[id]
	f.mu.Unlock()
	var err error
	switch {
	case cerr != nil:
		err = cerr
	case mode == "ignore":
	default:
		if known {
			f.Complete(id, graphsync.RequestClientCancelledErr{})
		} else {
			err = graphsync.RequestNotFoundErr{}
		}
	}
	f.fin(c, err)
	return err
}
func (f *FakeGS) Pause(ctx context.Context, id graphsync.RequestID) error {
	c := f.rec(&GSCall{Op: "pause", ID: id})
	defer f.enter(f.loopOf(id))()
	f.stall()
	f.fin(c, nil)
	return nil
}
func (f *FakeGS) Unpause(ctx context.Context, id graphsync.RequestID, exts ...graphsync.ExtensionData) error {
	c := f.rec(&GSCall{Op: "unpause", ID: id, Exts: extMap(exts)})
	defer f.enter(f.loopOf(id))()
	f.stall()
	f.fin(c, nil)
	return nil
}
func (f *FakeGS) SendUpdate(ctx context.Context, id graphsync.RequestID, exts ...graphsync.ExtensionData) error {
	c := f.rec(&GSCall{Op: "update", ID: id, Exts: extMap(exts)})
	defer f.enter(f.loopOf(id))()
	f.fin(c, nil)
	return nil
}
func (f *FakeGS) RegisterPersistenceOption(name string, lsys ipld.LinkSystem) error {
	c := f.rec(&GSCall{Op: "regopt", Name: name})
	f.mu.Lock()
	var err error
	if f.opts[name] > 0 {
		err = errors.New("persistence option already registered: " + name)
	} else {
		f.opts[name] = 1
	}
	f.mu.Unlock()
	f.fin(c, err)
	return err
}
func (f *FakeGS) UnregisterPersistenceOption(name string) error {
	c := f.rec(&GSCall{Op: "unregopt", Name: name})
	f.mu.Lock()
	var err error
	if f.opts[name] == 0 {
		err = errors.New("persistence option not registered: " + name)
	} else {
		f.opts[name] = 0
	}
	f.mu.Unlock()
	f.fin(c, err)
	return err
}

// RegisteredOptions lists the persistence options currently registered.
func (f *FakeGS) RegisteredOptions() []string {
	f.mu.Lock()
	defer f.mu.Unlock()
	var out []string
	for n, v := range f.opts {
		if v > 0 {
			out = append(out, n)
		}
	}
	return out
}

func (f *FakeGS) unreg() graphsync.UnregisterHookFunc {
	return func() { f.mu.Lock(); f.unregistered++; f.mu.Unlock() }
}
func (f *FakeGS) RegisterIncomingRequestHook(h graphsync.OnIncomingRequestHook) graphsync.UnregisterHookFunc {
	f.mu.Lock()
	f.IncomingRequestHook = func(p peer.ID, r graphsync.RequestData, a graphsync.IncomingRequestHookActions) {
		defer f.enter(f.respLoop)()
		f.gate("response-manager", "incoming-request")
		h(p, r, a)
	}
	f.mu.Unlock()
	return f.unreg()
}
func (f *FakeGS) RegisterIncomingResponseHook(h graphsync.OnIncomingResponseHook) graphsync.UnregisterHookFunc {
	f.mu.Lock()
	f.IncomingResponseHook = func(p peer.ID, r graphsync.ResponseData, a graphsync.IncomingResponseHookActions) {
		defer f.enter(f.reqLoop)()
		f.gate("request-manager", "incoming-response")
		h(p, r, a)
	}
	f.mu.Unlock()
	return f.unreg()
}
func (f *FakeGS) RegisterIncomingBlockHook(h graphsync.OnIncomingBlockHook) graphsync.UnregisterHookFunc {
	f.mu.Lock()
	f.IncomingBlockHook = h
	f.mu.Unlock()
	return f.unreg()
}
func (f *FakeGS) RegisterOutgoingRequestHook(h graphsync.OnOutgoingRequestHook) graphsync.UnregisterHookFunc {
	f.mu.Lock()
	f.outHookRaw = h
	f.OutgoingRequestHook = func(p peer.ID, r graphsync.RequestData, a graphsync.OutgoingRequestHookActions) {
		defer f.enter(f.reqLoop)()
		h(p, r, a)
	}
	f.mu.Unlock()
	return f.unreg()
}
func (f *FakeGS) RegisterOutgoingBlockHook(h graphsync.OnOutgoingBlockHook) graphsync.UnregisterHookFunc {
	f.mu.Lock()
	f.OutgoingBlockHook = h
	f.mu.Unlock()
	return f.unreg()
}
func (f *FakeGS) RegisterRequestUpdatedHook(h graphsync.OnRequestUpdatedHook) graphsync.UnregisterHookFunc {
	f.mu.Lock()
	f.RequestUpdatedHook = func(p peer.ID, r graphsync.RequestData, u graphsync.RequestData, a graphsync.RequestUpdatedHookActions) {
		defer f.enter(f.respLoop)()
		f.gate("response-manager", "request-updated")
		h(p, r, u, a)
	}
	f.mu.Unlock()
	return f.unreg()
}
func (f *FakeGS) RegisterOutgoingRequestProcessingListener(l graphsync.OnRequestProcessingListener) graphsync.UnregisterHookFunc {
	f.mu.Lock()
	f.OutgoingRequestProcessingListener = l
	f.mu.Unlock()
	return f.unreg()
}
func (f *FakeGS) RegisterIncomingRequestProcessingListener(l graphsync.OnRequestProcessingListener) graphsync.UnregisterHookFunc {
	f.mu.Lock()
	f.IncomingRequestProcessingListener = l
	f.mu.Unlock()
	return f.unreg()
}
func (f *FakeGS) RegisterCompletedResponseListener(l graphsync.OnResponseCompletedListener) graphsync.UnregisterHookFunc {
	f.mu.Lock()
	f.CompletedResponseListener = l
	f.mu.Unlock()
	return f.unreg()
}
func (f *FakeGS) RegisterRequestorCancelledListener(l graphsync.OnRequestorCancelledListener) graphsync.UnregisterHookFunc {
	f.mu.Lock()
	f.RequestorCancelledListener = func(p peer.ID, r graphsync.RequestData) {
		defer f.enter(f.respLoop)()
		l(p, r)
	}
	f.mu.Unlock()
	return f.unreg()
}
func (f *FakeGS) RegisterBlockSentListener(l graphsync.OnBlockSentListener) graphsync.UnregisterHookFunc {
	f.mu.Lock()
	f.BlockSentListener = l
	f.mu.Unlock()
	return f.unreg()
}
func (f *FakeGS) RegisterNetworkErrorListener(l graphsync.OnNetworkErrorListener) graphsync.UnregisterHookFunc {
	f.mu.Lock()
	f.NetworkErrorListener = l
	f.mu.Unlock()
	return f.unreg()
}
func (f *FakeGS) RegisterReceiverNetworkErrorListener(l graphsync.OnReceiverNetworkErrorListener) graphsync.UnregisterHookFunc {
	f.mu.Lock()
	f.ReceiverNetworkErrorListener = l
	f.mu.Unlock()
	return f.unreg()
}
func (f *FakeGS) Stats() graphsync.Stats { return graphsync.Stats{} }

// Calls returns copies of the recorded calls.
func (f *FakeGS) Calls() []GSCall {
	f.mu.Lock()
	defer f.mu.Unlock()
	out := make([]GSCall, len(f.calls))
	for i, c := range f.calls {
		out[i] = *c
	}
	return out
}
func (f *FakeGS) Len() int { f.mu.Lock(); defer f.mu.Unlock(); return len(f.calls) }

// Req builds request data for firing hooks.
func Req(id graphsync.RequestID, exts map[graphsync.ExtensionName]datamodel.Node) graphsync.RequestData {
	return testharness.NewFakeRequest(id, exts, graphsync.RequestTypeNew)
}

// Resp builds response data for firing hooks.
func Resp(id graphsync.RequestID, exts map[graphsync.ExtensionName]datamodel.Node, st graphsync.ResponseStatusCode) graphsync.ResponseData {
	return testharness.NewFakeResponse(id, exts, st)
}

// Block builds block data (onWire=false gives BlockSizeOnWire()==0).
func Block(size uint64, index int64, onWire bool) graphsync.BlockData {
	return testharness.NewFakeBlockData(size, index, onWire)
}

// ---------------------------------------------------------------- events handler double

// HCall is one recorded call on the EventsHandler double.
type HCall struct {
	Op     string
	Chid   datatransfer.ChannelID
	Msg    datatransfer.Message
	Size   uint64
	Index  int64
	Unique bool
	Err    error
	Seq    int64
	G      int64 // caller tag (set by the workload through WithTag)
}

// RecEvents is a recording, programmable datatransfer.EventsHandler.
type RecEvents struct {
	mu    sync.Mutex
	calls []HCall
	// Reply programs the return values: (response message for OnRequestReceived / message for
	// OnDataQueued, error). nil = (nil, nil).
	Reply func(c HCall) (datatransfer.Message, error)
}

var _ datatransfer.EventsHandler = (*RecEvents)(nil)

func (e *RecEvents) do(c HCall) (datatransfer.Message, error) {
	c.Seq = NextSeq()
	e.mu.Lock()
	e.calls = append(e.calls, c)
	r := e.Reply
	e.mu.Unlock()
	if r != nil {
		return r(c)
	}
	return nil, nil
}
func (e *RecEvents) SetReply(f func(c HCall) (datatransfer.Message, error)) {
	e.mu.Lock()
	e.Reply = f
	e.mu.Unlock()
}
func (e *RecEvents) OnChannelOpened(chid datatransfer.ChannelID) error {
	_, err := e.do(HCall{Op: "OnChannelOpened", Chid: chid})
	return err
}
func (e *RecEvents) OnResponseReceived(chid datatransfer.ChannelID, msg datatransfer.Response) error {
	_, err := e.do(HCall{Op: "OnResponseReceived", Chid: chid, Msg: msg})
	return err
}
func (e *RecEvents) OnDataReceived(chid datatransfer.ChannelID, link ipld.Link, size uint64, index int64, unique bool) error {
	_, err := e.do(HCall{Op: "OnDataReceived", Chid: chid, Size: size, Index: index, Unique: unique})
	return err
}
func (e *RecEvents) OnDataQueued(chid datatransfer.ChannelID, link ipld.Link, size uint64, index int64, unique bool) (datatransfer.Message, error) {
	return e.do(HCall{Op: "OnDataQueued", Chid: chid, Size: size, Index: index, Unique: unique})
}
func (e *RecEvents) OnDataSent(chid datatransfer.ChannelID, link ipld.Link, size uint64, index int64, unique bool) error {
	_, err := e.do(HCall{Op: "OnDataSent", Chid: chid, Size: size, Index: index, Unique: unique})
	return err
}
func (e *RecEvents) OnTransferInitiated(chid datatransfer.ChannelID) {
	e.do(HCall{Op: "OnTransferInitiated", Chid: chid})
}
func (e *RecEvents) OnRequestReceived(chid datatransfer.ChannelID, msg datatransfer.Request) (datatransfer.Response, error) {
	m, err := e.do(HCall{Op: "OnRequestReceived", Chid: chid, Msg: msg})
	if m == nil {
		return nil, err
	}
	r, ok := m.(datatransfer.Response)
	if !ok {
		panic(fmt.Sprintf("RecEvents: programmed reply %T is not a response", m))
	}
	return r, err
}
func (e *RecEvents) OnChannelCompleted(chid datatransfer.ChannelID, cerr error) error {
	_, err := e.do(HCall{Op: "OnChannelCompleted", Chid: chid, Err: cerr})
	return err
}
func (e *RecEvents) OnRequestCancelled(chid datatransfer.ChannelID, cerr error) error {
	_, err := e.do(HCall{Op: "OnRequestCancelled", Chid: chid, Err: cerr})
	return err
}
func (e *RecEvents) OnRequestDisconnected(chid datatransfer.ChannelID, cerr error) error {
	_, err := e.do(HCall{Op: "OnRequestDisconnected", Chid: chid, Err: cerr})
	return err
}
func (e *RecEvents) OnSendDataError(chid datatransfer.ChannelID, cerr error) error {
	_, err := e.do(HCall{Op: "OnSendDataError", Chid: chid, Err: cerr})
	return err
}
func (e *RecEvents) OnReceiveDataError(chid datatransfer.ChannelID, cerr error) error {
	_, err := e.do(HCall{Op: "OnReceiveDataError", Chid: chid, Err: cerr})
	return err
}
func (e *RecEvents) OnContextAugment(chid datatransfer.ChannelID) func(context.Context) context.Context {
	return func(c context.Context) context.Context { return c }
}
func (e *RecEvents) Calls() []HCall {
	e.mu.Lock()
	defer e.mu.Unlock()
	return append([]HCall(nil), e.calls...)
}
func (e *RecEvents) Len() int { e.mu.Lock(); defer e.mu.Unlock(); return len(e.calls) }

// SetLoopGate installs (or removes) the gate called with a manager loop held right before a hook runs.
func (f *FakeGS) SetLoopGate(g func(loop, hook string)) {
	f.mu.Lock()
	f.LoopGate = g
	f.mu.Unlock()
}
