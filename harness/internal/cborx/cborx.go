// Package cborx is an independent, minimal canonical DAG-CBOR encoder/decoder over plain Go
// values (no cbor-gen, no bindnode). It produces the expected wire bytes of messages from the
// published schema (C12), hand-made version-2/3 channel records (C13 and state injection) and
// decodes stored records for comparison with what the library reports (C06, C17).
package cborx

import (
	"bytes"
	"encoding/binary"
	"errors"
	"fmt"
	"math"
	"sort"

	"github.com/ipfs/go-cid"
)

// M is a map with string keys (encoded in DAG-CBOR canonical order: length first, then bytes).
type M map[string]any

// L is a list.
type L []any

// Raw is pre-encoded CBOR spliced in verbatim.
type Raw []byte

// Txt is a text string with arbitrary (possibly non UTF-8) bytes, e.g. a peer id.
type Txt []byte

// OM is a map encoded in the given (possibly non-canonical) key order.
type OM []KV

type KV struct {
	K string
	V any
}

func hdr(b *bytes.Buffer, maj byte, n uint64) {
	switch {
	case n < 24:
		b.WriteByte(maj<<5 | byte(n))
	case n < 1<<8:
		b.WriteByte(maj<<5 | 24)
		b.WriteByte(byte(n))
	case n < 1<<16:
		b.WriteByte(maj<<5 | 25)
		binary.Write(b, binary.BigEndian, uint16(n))
	case n < 1<<32:
		b.WriteByte(maj<<5 | 26)
		binary.Write(b, binary.BigEndian, uint32(n))
	default:
		b.WriteByte(maj<<5 | 27)
		binary.Write(b, binary.BigEndian, n)
	}
}

func enc(b *bytes.Buffer, v any) {
	switch x := v.(type) {
	case nil:
		b.WriteByte(0xf6)
	case bool:
		if x {
			b.WriteByte(0xf5)
		} else {
			b.WriteByte(0xf4)
		}
	case uint64:
		hdr(b, 0, x)
	case int:
		enc(b, int64(x))
	case int64:
		if x >= 0 {
			hdr(b, 0, uint64(x))
		} else {
			hdr(b, 1, uint64(-1-x))
		}
	case float64:
		b.WriteByte(0xfb)
		binary.Write(b, binary.BigEndian, math.Float64bits(x))
	case string:
		hdr(b, 3, uint64(len(x)))
		b.WriteString(x)
	case Txt:
		hdr(b, 3, uint64(len(x)))
		b.Write(x)
	case []byte:
		hdr(b, 2, uint64(len(x)))
		b.Write(x)
	case cid.Cid:
		hdr(b, 6, 42)
		bs := append([]byte{0}, x.Bytes()...)
		hdr(b, 2, uint64(len(bs)))
		b.Write(bs)
	case Raw:
		b.Write(x)
	case L:
		hdr(b, 4, uint64(len(x)))
		for _, e := range x {
			enc(b, e)
		}
	case []any:
		enc(b, L(x))
	case M:
		keys := make([]string, 0, len(x))
		for k := range x {
			keys = append(keys, k)
		}
		sort.Slice(keys, func(i, j int) bool {
			if len(keys[i]) != len(keys[j]) {
				return len(keys[i]) < len(keys[j])
			}
			return keys[i] < keys[j]
		})
		hdr(b, 5, uint64(len(keys)))
		for _, k := range keys {
			enc(b, k)
			enc(b, x[k])
		}
	case map[string]any:
		enc(b, M(x))
	case OM:
		hdr(b, 5, uint64(len(x)))
		for _, kv := range x {
			enc(b, kv.K)
			enc(b, kv.V)
		}
	default:
		panic(fmt.Sprintf("cborx: unsupported %T", v))
	}
}

// Encode returns the CBOR bytes of v.
func Encode(v any) []byte {
	var b bytes.Buffer
	enc(&b, v)
	return b.Bytes()
}

// ---------------------------------------------------------------- decoder

type dec struct {
	b   []byte
	pos int
}

var errShort = errors.New("cborx: short input")

func (d *dec) u8() (byte, error) {
	if d.pos >= len(d.b) {
		return 0, errShort
	}
	c := d.b[d.pos]
	d.pos++
	return c, nil
}

func (d *dec) arg(info byte) (uint64, error) {
	switch {
	case info < 24:
		return uint64(info), nil
	case info == 24:
		c, err := d.u8()
		return uint64(c), err
	case info == 25, info == 26, info == 27:
		n := 1 << (info - 24)
		if d.pos+n > len(d.b) {
			return 0, errShort
		}
		var v uint64
		for i := 0; i < n; i++ {
			v = v<<8 | uint64(d.b[d.pos+i])
		}
		d.pos += n
		return v, nil
	}
	return 0, fmt.Errorf("cborx: unsupported additional info %d", info)
}

func (d *dec) val(depth int) (any, error) {
	if depth > 64 {
		return nil, errors.New("cborx: too deep")
	}
	c, err := d.u8()
	if err != nil {
		return nil, err
	}
	maj, info := c>>5, c&31
	if maj == 7 {
		switch info {
		case 20:
			return false, nil
		case 21:
			return true, nil
		case 22:
			return nil, nil
		case 27:
			if d.pos+8 > len(d.b) {
				return nil, errShort
			}
			v := binary.BigEndian.Uint64(d.b[d.pos:])
			d.pos += 8
			return math.Float64frombits(v), nil
		}
		return nil, fmt.Errorf("cborx: unsupported simple %d", info)
	}
	n, err := d.arg(info)
	if err != nil {
		return nil, err
	}
	switch maj {
	case 0:
		return n, nil
	case 1:
		return -1 - int64(n), nil
	case 2, 3:
		if n > uint64(len(d.b)-d.pos) {
			return nil, errShort
		}
		bs := append([]byte(nil), d.b[d.pos:d.pos+int(n)]...)
		d.pos += int(n)
		if maj == 2 {
			return bs, nil
		}
		return string(bs), nil
	case 4:
		if n > uint64(len(d.b)-d.pos) {
			return nil, errShort
		}
		out := make([]any, 0, n)
		for i := uint64(0); i < n; i++ {
			v, err := d.val(depth + 1)
			if err != nil {
				return nil, err
			}
			out = append(out, v)
		}
		return out, nil
	case 5:
		if n > uint64(len(d.b)-d.pos) {
			return nil, errShort
		}
		out := map[string]any{}
		for i := uint64(0); i < n; i++ {
			k, err := d.val(depth + 1)
			if err != nil {
				return nil, err
			}
			ks, ok := k.(string)
			if !ok {
				return nil, errors.New("cborx: non-string map key")
			}
			v, err := d.val(depth + 1)
			if err != nil {
				return nil, err
			}
			out[ks] = v
		}
		return out, nil
	case 6:
		v, err := d.val(depth + 1)
		if err != nil {
			return nil, err
		}
		if n == 42 {
			bs, ok := v.([]byte)
			if !ok || len(bs) < 1 {
				return nil, errors.New("cborx: bad cid tag")
			}
			_, c, err := cid.CidFromBytes(bs[1:])
			if err != nil {
				return nil, err
			}
			return c, nil
		}
		return v, nil
	}
	return nil, errors.New("cborx: unreachable")
}

// Decode decodes one CBOR value; the whole input must be consumed.
func Decode(b []byte) (any, error) {
	d := &dec{b: b}
	v, err := d.val(0)
	if err != nil {
		return nil, err
	}
	if d.pos != len(b) {
		return nil, fmt.Errorf("cborx: %d trailing bytes", len(b)-d.pos)
	}
	return v, nil
}

// Canon re-encodes a decoded value canonically (maps sorted), for "equal as DAG-CBOR data".
func Canon(v any) []byte { return Encode(v) }

// FromPlain converts gen-style plain values (with ordered maps given as slices of {K,V}
// pairs through the Pairs interface) into cborx values with canonical maps.
type Pairs interface{ CborxPairs() []KV }

func FromPlain(v any) any {
	switch x := v.(type) {
	case Pairs:
		m := M{}
		for _, kv := range x.CborxPairs() {
			m[kv.K] = FromPlain(kv.V)
		}
		return m
	case []any:
		out := make(L, len(x))
		for i, e := range x {
			out[i] = FromPlain(e)
		}
		return out
	default:
		return v
	}
}
