package chk

import (
	"bytes"
	"errors"
	"fmt"
	"sort"
	"sync"
	"testing"
	"time"

	"github.com/anishathalye/porcupine"

	datatransfer "github.com/filecoin-project/go-data-transfer/v2"
	"github.com/filecoin-project/go-data-transfer/v2/message"

	"verif/harness/internal/doubles"
	"verif/harness/internal/gen"
	"verif/harness/internal/vf"
)

// ---- C18: channel identities never collide ---------------------------------------------------

// counterModel: a strictly increasing counter; every operation returns a value above the state.
var counterModel = porcupine.Model{
	Init: func() interface{} { return uint64(0) },
	Step: func(st, in, out interface{}) (bool, interface{}) {
		o := out.(uint64)
		return o > st.(uint64), o
	},
	DescribeOperation: func(in, out interface{}) string { return fmt.Sprintf("open -> %d", out.(uint64)) },
}

func TestC18Concurrent(t *testing.T) {
	vf.Run(t, "C18Concurrent", vf.Opts{Bubble: true, DefaultN: 20}, func(c *vf.Case) {
		r := c.Rng
		peers := gen.Peers(r, 4)
		f := newMgrFix(c, peers[0], nil)
		g := 2 + r.Intn(63)
		per := 1 + r.Intn(6)
		if g*per > 400 {
			per = 400 / g
		}
		var mu sync.Mutex
		var ops []porcupine.Operation
		type plan struct {
			pull bool
			to   int
		}
		plans := make([][]plan, g)
		for i := range plans {
			for j := 0; j < per; j++ {
				plans[i] = append(plans[i], plan{r.Intn(2) == 0, 1 + r.Intn(3)})
			}
		}
		v := gen.SimpleVoucher("VT0", "x")
		var fns []func()
		for i := 0; i < g; i++ {
			i := i
			fns = append(fns, func() {
				for _, p := range plans[i] {
					call := doubles.NextSeq()
					chid, err := f.open(p.pull, peers[p.to], v, dummyCid)
					ret := doubles.NextSeq()
					if err != nil {
						c.Violation("C18", "open-failed", "concurrent open failed: %v", err)
						continue
					}
					mu.Lock()
					ops = append(ops, porcupine.Operation{ClientId: i, Input: p.pull, Call: call, Output: uint64(chid.ID), Return: ret})
					mu.Unlock()
				}
			})
		}
		waitGroupGo(fns...)
		settle()
		seen := map[uint64]int{}
		for _, o := range ops {
			seen[o.Output.(uint64)]++
		}
		for id, n := range seen {
			if n > 1 {
				c.Violation("C18", "duplicate-transfer-id", "transfer id %d was issued %d times under %d concurrent openers", id, n, g)
			}
		}
		// per goroutine strictly increasing
		byClient := map[int][]uint64{}
		for _, o := range ops {
			byClient[o.ClientId] = append(byClient[o.ClientId], o.Output.(uint64))
		}
		for cl, ids := range byClient {
			for i := 1; i < len(ids); i++ {
				if ids[i] <= ids[i-1] {
					c.Violation("C18", "ids-not-increasing", "opener %d got %d after %d", cl, ids[i], ids[i-1])
				}
			}
		}
		// linearizability against a strictly increasing counter. Decided directly on the full history
		// (the sequential order is forced: ascending ids; it must respect real-time order) ...
		for i := range ops {
			for j := range ops {
				a, b := ops[i], ops[j]
				if a.Return < b.Call && a.Output.(uint64) >= b.Output.(uint64) {
					c.Violation("C18", "ids-not-linearizable", "open returning id %d had returned before the open returning id %d was called", a.Output, b.Output)
				}
			}
		}
		// ... and with porcupine on a sub-history of at most 12 operations (any sub-history of a
		// linearizable history of this model is linearizable; the full search explodes and the
		// checker's own timeout is useless on a virtual clock)
		sub := append([]porcupine.Operation(nil), ops...)
		r.Shuffle(len(sub), func(i, j int) { sub[i], sub[j] = sub[j], sub[i] })
		if len(sub) > 12 {
			sub = sub[:12]
		}
		if porcupine.CheckOperations(counterModel, sub) {
			c.Count("porcupine_ok", 1)
		} else {
			c.Violation("C18", "ids-not-linearizable", "porcupine: sub-history of %d concurrent opens is not linearizable against a strictly increasing counter", len(sub))
		}
		// every opened channel exists and is distinct
		all, err := f.m.InProgressChannels(bg)
		if err != nil || len(all) != len(ops) {
			c.Violation("C18", "channel-count", "%d opens but %d channels listed (err %v)", len(ops), len(all), err)
		}
		// distinct interleavings: order of returns across clients
		sort.Slice(ops, func(i, j int) bool { return ops[i].Return < ops[j].Return })
		il := ""
		for i, o := range ops {
			if i < 20 {
				il += fmt.Sprintf("%d,", o.ClientId)
			}
		}
		c.Mark("il=%s g=%d", il, g)
		c.Count("opens", len(ops))
		c.Count("goroutines", g)
		c.NonTrivial()
		if c.Index < 2 {
			c.Sample(map[string]any{"goroutines": g, "opens": len(ops), "first_ids": fmt.Sprint(byClient[0]), "return_order_prefix": il})
		}
		f.checkProbes()
		f.stop()
	})
}

// TestC18Lifetimes runs outside a bubble: the id generator is seeded from the wall clock.
func TestC18Lifetimes(t *testing.T) {
	vf.Run(t, "C18Lifetimes", vf.Opts{Bubble: false, DefaultN: 5}, func(c *vf.Case) {
		r := c.Rng
		peers := gen.Peers(r, 2)
		ds := doubles.NewRecDS()
		v := gen.SimpleVoucher("VT0", "x")
		var last uint64
		lifetimes := 2 + r.Intn(4)
		total := 0
		for l := 0; l < lifetimes; l++ {
			f := newMgrFixPlain(c, peers[0], ds)
			n := 1 + r.Intn(500)
			if l%2 == 1 {
				n = 1 + r.Intn(5)
			}
			// open from many goroutines at once: the more ids per millisecond of wall clock, the
			// harder the test for the "later manager starts above" clause
			workers := 1 + r.Intn(24)
			var mu sync.Mutex
			var ids []uint64
			var wg sync.WaitGroup
			for w := 0; w < workers; w++ {
				wg.Add(1)
				pull := w%2 == 0
				go func() {
					defer wg.Done()
					for i := 0; i < n/workers+1; i++ {
						chid, err := f.open(pull, peers[1], v, dummyCid)
						if err != nil {
							c.Violation("C18", "open-failed-across-lifetimes", "open in lifetime %d failed: %v", l, err)
							return
						}
						mu.Lock()
						ids = append(ids, uint64(chid.ID))
						mu.Unlock()
					}
				}()
			}
			wg.Wait()
			newLast := last
			for _, id := range ids {
				if id <= last {
					c.Violation("C18", "id-not-above-earlier-manager", "lifetime %d issued id %d, an earlier manager had already issued %d", l, id, last)
					break
				}
				if id > newLast {
					newLast = id
				}
			}
			last = newLast
			total += len(ids)
			f.m.Stop(bg)
		}
		c.Count("lifetimes", lifetimes)
		c.Count("ids", total)
		c.Mark("idx=%d", c.Index)
		c.NonTrivial()
		if c.Index < 1 {
			c.Sample(map[string]any{"lifetimes": lifetimes, "ids_issued": total, "last_id": last})
		}
	})
}

// TestC18LifetimesVirtual: the "later manager starts above the IDs of an earlier one" clause on the
// virtual clock. Inside a bubble no time passes while a manager issues ids, so the only wall clock
// that separates two lifetimes is what the harness lets pass between them: 1 microsecond per id the
// earlier manager issued (far less than an open costs on any real machine) plus a PRNG extra. With
// that much clock every later id must still be above every earlier one.
func TestC18LifetimesVirtual(t *testing.T) {
	vf.Run(t, "C18LifetimesVirtual", vf.Opts{Bubble: true, DefaultN: 8}, func(c *vf.Case) {
		r := c.Rng
		peers := gen.Peers(r, 2)
		ds := doubles.NewRecDS()
		v := gen.SimpleVoucher("VT0", "x")
		var last uint64
		lifetimes := 2 + r.Intn(5)
		total := 0
		for l := 0; l < lifetimes; l++ {
			f := newMgrFix(c, peers[0], ds)
			n := 2 + r.Intn(60)
			workers := 1 + r.Intn(8)
			var mu sync.Mutex
			var ids []uint64
			var wg sync.WaitGroup
			for w := 0; w < workers; w++ {
				wg.Add(1)
				pull := w%2 == 0
				go func() {
					defer wg.Done()
					for i := 0; i < n/workers+1; i++ {
						chid, err := f.open(pull, peers[1], v, dummyCid)
						if err != nil {
							c.Violation("C18", "open-failed-across-lifetimes", "open in lifetime %d failed: %v", l, err)
							return
						}
						mu.Lock()
						ids = append(ids, uint64(chid.ID))
						mu.Unlock()
					}
				}()
			}
			wg.Wait()
			settle()
			newLast := last
			seen := map[uint64]bool{}
			for _, id := range ids {
				if id <= last {
					c.Violation("C18", "id-not-above-earlier-manager", "lifetime %d issued id %d, an earlier manager had already issued %d (virtual clock: %d us per earlier id had passed)", l, id, last, 1)
					break
				}
				if seen[id] {
					c.Violation("C18", "duplicate-transfer-id", "lifetime %d issued id %d twice", l, id)
				}
				seen[id] = true
				if id > newLast {
					newLast = id
				}
			}
			last = newLast
			total += len(ids)
			f.stop()
			settle()
			time.Sleep(time.Duration(len(ids))*time.Microsecond + time.Duration(r.Intn(3))*time.Duration(r.Intn(1000000))*time.Microsecond)
		}
		c.Count("virtual_lifetimes", lifetimes)
		c.Count("virtual_ids", total)
		c.Mark("lifetimes=%d ids=%d", lifetimes, total/100)
		c.NonTrivial()
		if c.Index < 1 {
			c.Sample(map[string]any{"clock": "virtual", "lifetimes": lifetimes, "ids_issued": total, "last_id": last})
		}
	})
}

func TestC18Duplicate(t *testing.T) {
	vf.Run(t, "C18Duplicate", vf.Opts{Bubble: true, DefaultN: 24}, func(c *vf.Case) {
		r := c.Rng
		peers := gen.Peers(r, 3)
		self, other := peers[0], peers[1]
		pull := c.Index%2 == 0
		point := (c.Index / 2) % 6 // 0 just accepted, 1 ongoing, 2 paused, 3 terminal, 4 reopened, 5 concurrent creation
		f := newMgrFix(c, self, nil)
		v := gen.Voucher(r, "VT0")
		tid := datatransfer.TransferID(1 + r.Intn(1<<30))
		chid := datatransfer.ChannelID{Initiator: other, Responder: self, ID: tid}
		req, _ := message.NewRequest(tid, false, pull, &v, dummyCid, gen.AllSelector)
		deliver := func() (datatransfer.Response, error) {
			w, _ := doubles.Reencode(req)
			if pull {
				return f.tp.Events().OnRequestReceived(chid, w.(datatransfer.Request))
			}
			f.net.Deliver(other, w)
			return nil, nil
		}
		if point == 5 {
			// two concurrent creations of the same id: exactly one may succeed
			n := 2 + r.Intn(4)
			var fns []func()
			var mu sync.Mutex
			accepted := 0
			for i := 0; i < n; i++ {
				fns = append(fns, func() {
					resp, _ := deliver()
					if resp != nil && resp.Accepted() {
						mu.Lock()
						accepted++
						mu.Unlock()
					}
				})
			}
			waitGroupGo(fns...)
			settle()
			for _, s := range f.net.Sends(0) {
				if rs, ok := s.Msg.(datatransfer.Response); ok && rs.IsNew() && rs.Accepted() {
					accepted++
				}
			}
			for _, tc := range f.tp.Calls() {
				if tc.Op == "open" && tc.Chid == chid {
					accepted++
				}
			}
			if accepted != 1 {
				c.Violation("C18", fmt.Sprintf("concurrent-duplicate-accepted %d", accepted), "%d concurrent identical new requests: %d were answered accepted", n, accepted)
			}
			all, _ := f.m.InProgressChannels(bg)
			if len(all) != 1 {
				c.Violation("C18", "concurrent-duplicate-channels", "%d channels exist after %d identical new requests", len(all), n)
			}
			c.Count("concurrent_duplicates", 1)
			c.Mark("point=5 pull=%v n=%d", pull, n)
			c.NonTrivial()
			f.checkProbes()
			f.stop()
			return
		}
		if point == 4 {
			f.val.SetOutcome(func(kind string, n int, ch datatransfer.ChannelID) (datatransfer.ValidationResult, error) {
				return datatransfer.ValidationResult{Accepted: true, DataLimit: 1500}, nil
			})
		}
		// report delivers one unique block report in the direction this responder moves data
		report := func(f *mgrFix, idx int64, size uint64) error {
			if pull {
				_, err := f.tp.Events().OnDataQueued(chid, dummyLink, size, idx, true)
				return err
			}
			return f.tp.Events().OnDataReceived(chid, dummyLink, size, idx, true)
		}
		deliver()
		settle()
		if f.view(chid) == nil {
			c.Violation("C18", "original-not-created", "the original request did not create a channel")
			f.stop()
			return
		}
		switch point {
		case 1:
			f.tp.Events().OnTransferInitiated(chid)
			f.tp.Events().OnDataQueued(chid, dummyLink, 1000, 1, true)
			f.tp.Events().OnDataReceived(chid, dummyLink, 1000, 1, true)
		case 2:
			f.m.PauseDataTransferChannel(bg, chid)
		case 3:
			mgrToTerminal(f, chid, role{false, pull}, terminals[r.Intn(3)], r.Intn(2))
		case 4:
			f.tp.Events().OnTransferInitiated(chid)
			settle()
			// stored progress below a data limit, then a new process lifetime (cold caches)
			report(f, 1, 1000)
			settle()
			f = f.reopen()
		}
		settle()
		before := f.view(chid)
		key := keyFor(f.ds.Log(), chid)
		b0 := f.ds.Snapshot()[key]
		nev := len(f.sub.For(chid))
		nnet, ntp := f.net.Len(), f.tp.Len()
		// the validator may judge the repeated request differently (a replayed voucher): accept it again,
		// reject it, or fail - the existing channel is none of its business in any case
		dupVerdict := r.Intn(3)
		if point != 4 {
			f.val.SetOutcome(func(kind string, n int, ch datatransfer.ChannelID) (datatransfer.ValidationResult, error) {
				switch dupVerdict {
				case 1:
					return datatransfer.ValidationResult{Accepted: false}, nil
				case 2:
					return datatransfer.ValidationResult{}, errors.New("validator unavailable")
				}
				return datatransfer.ValidationResult{Accepted: true}, nil
			})
			c.Count(fmt.Sprintf("duplicate_validator_verdict_%d", dupVerdict), 1)
		}
		resp, _ := deliver()
		settle()
		after := f.view(chid)
		if after == nil {
			c.Violation("C18", "duplicate-destroyed-channel", "channel gone after a duplicate new request")
		} else if d := doubles.Diff(before, after, true); len(d) > 0 {
			c.Violation("C18", fmt.Sprintf("duplicate-changed-channel point=%d %v", point, d), "a duplicate new request changed the existing channel (%s): %v", before.Status, d)
		}
		if !bytes.Equal(b0, f.ds.Snapshot()[key]) {
			c.Violation("C18", fmt.Sprintf("duplicate-rewrote-record point=%d", point), "a duplicate new request rewrote the existing channel's stored record")
		}
		if n := len(f.sub.For(chid)); n != nev {
			c.Violation("C18", fmt.Sprintf("duplicate-emitted-event point=%d", point), "a duplicate new request emitted %d event(s) on the existing channel: %s", n-nev, f.sub.For(chid)[nev].Code)
		}
		accepted := resp != nil && resp.Accepted()
		for _, s := range f.net.Sends(nnet) {
			if rs, ok := s.Msg.(datatransfer.Response); ok && rs.IsNew() && rs.Accepted() {
				accepted = true
			}
		}
		for _, tc := range f.tp.CallsFrom(ntp) {
			if tc.Op == "open" && tc.Chid == chid {
				accepted = true
			}
		}
		if accepted {
			c.Violation("C18", fmt.Sprintf("duplicate-accepted point=%d", point), "a duplicate new request for an existing channel id was accepted")
		}
		if point == 4 && after != nil {
			// "exactly as it was" includes what the channel does next: the transfer goes on after the refused
			// duplicate - the block already recorded is replayed, then a new one crosses the data limit
			moved := func(v *doubles.StateView) uint64 {
				if pull {
					return v.Queued
				}
				return v.Received
			}
			m0 := moved(after)
			report(f, 1, 1000)
			settle()
			if v := f.view(chid); v != nil && moved(v) != m0 {
				c.Violation("C18", "duplicate-disturbed-accounting", "after a refused duplicate (new lifetime) a replayed block was counted again: %d -> %d", m0, moved(v))
			}
			err := report(f, 2, 600)
			settle()
			if !errors.Is(err, datatransfer.ErrPause) {
				c.Violation("C18", "duplicate-disturbed-data-limit", "after a refused duplicate (new lifetime) the block that crosses the stored data limit (1500) was not answered with a pause: %v", err)
			}
			c.Count("followup_after_duplicate", 1)
		}
		// creating the same id through the channels API fails as well
		c.Count("duplicates", 1)
		c.Mark("point=%d pull=%v st=%s", point, pull, before.Status)
		c.NonTrivial()
		if c.Index < 2 {
			c.Sample(map[string]any{"pull": pull, "point_of_life": point, "status_before": before.Status.String(), "duplicate_accepted": accepted})
		}
		f.checkProbes()
		f.stop()
	})
}
