package chk

import (
	"fmt"
	"sync"
	"testing"

	"github.com/libp2p/go-libp2p/core/peer"

	datatransfer "github.com/filecoin-project/go-data-transfer/v2"
	"github.com/filecoin-project/go-data-transfer/v2/message"

	"verif/harness/internal/doubles"
	"verif/harness/internal/gen"
	"verif/harness/internal/vf"
)

// ---- C17: subscribers see every applied event once, in order, with the resulting state --------

type subRec struct {
	name     string
	log      *doubles.SubLog
	unsub    datatransfer.Unsubscribe
	from     int  // number of stimuli applied before it subscribed (0 = whole run)
	gone     bool // unsubscribed
	goneAt   int  // its log length right after the unsubscribe settled
	perChid  *datatransfer.ChannelID
	stallYld int
}

func collapse(vs []*doubles.StateView) []*doubles.StateView {
	var out []*doubles.StateView
	for _, v := range vs {
		if len(out) == 0 || !sameView(out[len(out)-1], v) {
			out = append(out, v)
		}
	}
	return out
}

func TestC17Subs(t *testing.T) {
	vf.Run(t, "C17Subs", vf.Opts{Bubble: true, DefaultN: 30}, func(c *vf.Case) {
		r := c.Rng
		peers := gen.Peers(r, 4)
		self := peers[0]
		f := newMgrFix(c, self, nil)
		var subs []*subRec
		addGlobal := func(from int) *subRec {
			s := &subRec{name: fmt.Sprintf("global%d", len(subs)), log: &doubles.SubLog{}, from: from}
			if r.Intn(3) == 0 {
				s.stallYld = 20 + r.Intn(100)
				y := s.stallYld
				s.log.Inner = func(datatransfer.Event, datatransfer.ChannelState) { doubles.Yield(y) } // back-pressure on the notification queue
			}
			s.unsub = f.m.SubscribeToEvents(s.log.Fn())
			subs = append(subs, s)
			return s
		}
		for i := 0; i < 1+r.Intn(4); i++ {
			addGlobal(0)
		}
		// channels
		nch := 1 + r.Intn(6)
		type chT struct {
			chid  datatransfer.ChannelID
			role  role
			other peer.ID
			per   *subRec
			v     datatransfer.TypedVoucher
		}
		var chs []*chT
		for i := 0; i < nch; i++ {
			rl := gen.Pick(r, allRoles)
			other := peers[1+r.Intn(3)]
			v := gen.Voucher(r, gen.Pick(r, regTypes))
			ch := &chT{role: rl, other: other, v: v}
			if rl.Initiator {
				var opts []datatransfer.TransferOption
				if r.Intn(2) == 0 {
					ch.per = &subRec{name: fmt.Sprintf("per-transfer%d", i), log: &doubles.SubLog{}}
					opts = append(opts, datatransfer.WithSubscriber(ch.per.log.Fn()))
				}
				chid, err := f.open(rl.Pull, other, v, dummyCid, opts...)
				if err != nil {
					continue
				}
				ch.chid = chid
				if ch.per != nil {
					cp := chid
					ch.per.perChid = &cp
				}
			} else {
				tid := datatransfer.TransferID(1 + r.Intn(1<<30))
				// a counterparty may open a channel to us under a transfer id we issued to it ourselves:
				// (other, self, n) and (self, other, n) are different channels
				for _, e := range chs {
					if e.role.Initiator && e.per != nil && r.Intn(2) == 0 {
						tid, other = e.chid.ID, e.other
						ch.other = other
						c.Count("inbound_channel_reusing_our_transfer_id", 1)
						break
					}
				}
				ch.chid = f.mkResponder(rl.Pull, other, tid, v)
				if f.view(ch.chid) == nil {
					continue
				}
			}
			settle()
			chs = append(chs, ch)
		}
		if len(chs) == 0 {
			f.stop()
			return
		}
		nstim := 20 + r.Intn(130)
		applied := 0
		var trace []string
		var pendingUnsub chan struct{} // an armed "unsubscribe during delivery" that has not fired yet
		var victim *subRec
		disarm := func() {}
		for i := 0; i < nstim; i++ {
			// subscription changes from other goroutines while events flow
			switch r.Intn(25) {
			case 0:
				addGlobal(i + 1)
				settle()
			case 1:
				var cand []*subRec
				for _, s := range subs {
					if !s.gone && s.perChid == nil && s.from > 0 {
						cand = append(cand, s)
					}
				}
				if len(cand) > 0 {
					s := gen.Pick(r, cand)
					var wg sync.WaitGroup
					wg.Add(1)
					go func() { defer wg.Done(); s.unsub() }()
					wg.Wait()
					settle()
					s.gone, s.goneAt = true, s.log.Len()
				}
			}
			// an unsubscribe that lands WHILE an event is being delivered: an early subscriber's callback lets
			// another goroutine unsubscribe a later one (not the last) and lingers a little; every remaining
			// subscriber must still be called exactly once for that event
			if pendingUnsub == nil && r.Intn(12) == 0 {
				var live []*subRec
				for _, sb := range subs {
					if !sb.gone && sb.perChid == nil {
						live = append(live, sb)
					}
				}
				if len(live) >= 3 {
					first := live[0]
					victim = live[1+r.Intn(len(live)-2)]
					prevInner := first.log.Inner
					pendingUnsub = make(chan struct{})
					var once sync.Once
					first.log.Inner = func(ev datatransfer.Event, st datatransfer.ChannelState) {
						if prevInner != nil {
							prevInner(ev, st)
						}
						once.Do(func() {
							go func() { defer close(pendingUnsub); victim.unsub() }()
							doubles.Yield(300)
						})
					}
					disarm = func() { first.log.Inner = prevInner }
					c.Count("unsubscribe_during_delivery_armed", 1)
				}
			}
			ch := gen.Pick(r, chs)
			v0 := f.view(ch.chid)
			if v0 == nil {
				continue
			}
			cur := func() *mgrFix { return f }
			stims := stimuliFor(c, cur, ch.chid, ch.role, v0, nil)
			// drop stimuli that end the channel most of the time, so histories get long
			s := gen.Pick(r, stims)
			if (containsAny(s.name, "Cancel", "Close", "reject", "acc=false", "OnChannelCompleted(err)") && r.Intn(6) != 0) || s.name == "API:InProgress" || s.name == "API:ChannelState" {
				continue
			}
			vf.Recover(s.do)
			settle()
			applied++
			trace = append(trace, s.name)
			if pendingUnsub != nil {
				select {
				case <-pendingUnsub:
					victim.gone, victim.goneAt = true, victim.log.Len()
					pendingUnsub = nil
					c.Count("unsubscribed_during_delivery", 1)
				default: // no event yet: the callback has not run, nothing was unsubscribed; it stays armed
				}
			}
		}
		settle()
		if pendingUnsub != nil { // still armed at the end of the script: it fired just now, or is taken off
			select {
			case <-pendingUnsub:
				victim.gone, victim.goneAt = true, victim.log.Len()
			default:
				disarm()
			}
			pendingUnsub = nil
		}
		// a transfer opened (with its own subscriber) while another channel's terminal event is being
		// delivered to that channel's per-transfer subscriber must not lose its subscription
		for _, ch := range chs {
			if ch.per == nil || r.Intn(2) == 0 {
				continue
			}
			if v := f.view(ch.chid); v == nil || isTerminal(v.Status) || isCleanup(v.Status) {
				continue
			}
			var once sync.Once
			opened := make(chan struct{})
			nb := &chT{role: role{Initiator: true, Pull: r.Intn(2) == 0}, other: ch.other, v: ch.v}
			nb.per = &subRec{name: "per-transfer-late", log: &doubles.SubLog{}}
			pull := nb.role.Pull
			ch.per.log.Inner = func(ev datatransfer.Event, st datatransfer.ChannelState) {
				if !isTerminal(st.Status()) {
					return
				}
				once.Do(func() {
					go func() {
						defer close(opened)
						chid, err := f.open(pull, nb.other, nb.v, dummyCid, datatransfer.WithSubscriber(nb.per.log.Fn()))
						if err == nil {
							nb.chid = chid
							cp := chid
							nb.per.perChid = &cp
						}
					}()
					for i := 0; i < 3000; i++ { // keep the terminal delivery in progress for a while
						select {
						case <-opened:
							return
						default:
							doubles.Yield(1)
						}
					}
				})
			}
			f.m.CloseDataTransferChannel(bg, ch.chid)
			settle()
			select {
			case <-opened:
			default:
				continue
			}
			if nb.per.perChid == nil {
				continue
			}
			// drive the new channel a little
			resp, _ := message.NewResponse(nb.chid.ID, true, false, nil)
			f.deliverResponse(nb.chid, pull, resp)
			f.tp.Events().OnTransferInitiated(nb.chid)
			f.m.PauseDataTransferChannel(bg, nb.chid)
			settle()
			chs = append(chs, nb)
			c.Count("opened_during_terminal_delivery", 1)
			break
		}
		settle()
		// ---------------- oracle
		log := f.ds.Log()
		statuses := map[datatransfer.Status]bool{}
		for _, ch := range chs {
			key := keyFor(log, ch.chid)
			var puts []*doubles.StateView
			first := true
			for _, w := range log {
				if w.Key != key || w.Del {
					continue
				}
				if first {
					first = false // the creation write: no event
					continue
				}
				dv, err := recordToView(w.Val)
				if err != nil {
					c.Violation("C17", "stored-record-undecodable", "%v", err)
					continue
				}
				puts = append(puts, dv)
			}
			puts = collapse(puts)
			var ref []doubles.SEvent // the first whole-run subscriber is the reference for the others
			for _, s := range subs {
				if s.perChid != nil {
					continue
				}
				evs := s.log.For(ch.chid)
				if s.from == 0 && !s.gone {
					var views []*doubles.StateView
					for k, e := range evs {
						views = append(views, e.View)
						statuses[e.View.Status] = true
						// an announced event was applied: its snapshot must show the event's defining effect
						// (an event ignored as invalid leaves the state as it was and must not be announced)
						if k > 0 {
							if why := missingEffect(e.Code, evs[k-1].View, e.View); why != "" {
								c.Violation("C17", "announced-event-without-its-effect "+e.Code.String(), "%s was announced to %s but the snapshot does not show its effect: %s (status %s -> %s)", e.Code, s.name, why, evs[k-1].View.Status, e.View.Status)
							}
						}
						// totals only move on progress events
						if k > 0 && e.Code != datatransfer.DataQueuedProgress && e.Code != datatransfer.DataSentProgress && e.Code != datatransfer.DataReceivedProgress {
							p := evs[k-1].View
							if p.Queued != e.View.Queued || p.Sent != e.View.Sent || p.Received != e.View.Received {
								c.Violation("C17", "snapshot-carries-foreign-effect "+e.Code.String(), "snapshot of %s changes byte totals", e.Code)
							}
						}
					}
					cv := collapse(views)
					// every applied event (one write each) is announced once, in order, with the state it produced
					if len(cv) != len(puts) {
						c.Violation("C17", fmt.Sprintf("announcements-vs-writes calls=%d writes=%d", len(cv), len(puts)), "%s saw %d distinct states for channel %s, the write log has %d (missing or extra announcements); role %s", s.name, len(cv), ch.chid, len(puts), ch.role)
					} else {
						for k := range cv {
							if !sameView(cv[k], puts[k]) {
								c.Violation("C17", "snapshot-differs-from-stored-state", "%s: snapshot #%d of channel differs from write #%d: %v", s.name, k, k, doubles.Diff(puts[k], cv[k], true))
								break
							}
						}
					}
					if ref == nil {
						ref = evs
					} else if len(ref) != len(evs) {
						c.Violation("C17", "subscribers-disagree", "%s got %d events for the channel, another whole-run subscriber got %d", s.name, len(evs), len(ref))
					} else {
						for k := range evs {
							if evs[k].Code != ref[k].Code || !sameView(evs[k].View, ref[k].View) {
								c.Violation("C17", "subscribers-disagree-order", "%s and another subscriber disagree at event #%d (%s vs %s)", s.name, k, evs[k].Code, ref[k].Code)
								break
							}
						}
					}
					c.Count("events_checked", len(evs))
				}
			}
			// per-transfer subscriber: exactly its channel's events, released at termination
			if ch.per != nil && ref != nil {
				evs := ch.per.log.Events()
				for _, e := range evs {
					if e.View.Chid != ch.chid {
						c.Violation("C17", "per-transfer-subscriber-got-foreign-event", "per-transfer subscriber of %s was called for %s", ch.chid, e.View.Chid)
					}
				}
				// it is registered right after the channel is created: it may miss nothing but events before registration (none: Open follows)
				if len(evs) != len(ref) {
					c.Violation("C17", fmt.Sprintf("per-transfer-subscriber-count %d vs %d", len(evs), len(ref)), "per-transfer subscriber got %d events, a global subscriber got %d for the same channel", len(evs), len(ref))
				} else {
					for k := range evs {
						if evs[k].Code != ref[k].Code {
							c.Violation("C17", "per-transfer-subscriber-order", "per-transfer subscriber order differs at #%d", k)
							break
						}
					}
				}
				if in, ok := hookInternals(f.m); ok {
					v := f.view(ch.chid)
					if v != nil && isTerminal(v.Status) && in.subscribers(ch.chid) != 0 {
						c.Violation("C17", "per-transfer-subscriber-not-released", "channel %s terminated but %d per-transfer subscribers are still registered", v.Status, in.subscribers(ch.chid))
					}
				}
				c.Count("per_transfer_checked", 1)
			}
		}
		// unsubscribed subscribers saw nothing applied after their unsubscribe returned
		for _, s := range subs {
			if s.gone {
				if n := s.log.Len(); n != s.goneAt {
					c.Violation("C17", "called-after-unsubscribe", "%s was called %d more times after its unsubscribe had returned and the queue had drained", s.name, n-s.goneAt)
				}
				c.Count("unsubscribed_checked", 1)
			}
			if s.from > 0 && !s.gone && s.perChid == nil {
				c.Count("late_subscribers", 1)
			}
		}
		f.checkProbes()
		for st := range statuses {
			c.Mark("st=%s", st)
		}
		c.Mark("nch=%d nsubs=%d", len(chs), len(subs))
		c.Count("stimuli", applied)
		c.NonTrivial()
		if c.Index < 2 {
			c.Sample(map[string]any{"channels": len(chs), "subscribers": len(subs), "stimuli": trace})
		}
		f.stop()
	})
}

// missingEffect returns a reason when the snapshot after an announced event does not show the
// effect that defines that event (only events with a definite post-condition are judged).
func missingEffect(code datatransfer.EventCode, before, after *doubles.StateView) string {
	switch code {
	case datatransfer.PauseInitiator:
		if !after.InitiatorPaused {
			return "InitiatorPaused is false"
		}
	case datatransfer.ResumeInitiator:
		if after.InitiatorPaused {
			return "InitiatorPaused is still true"
		}
	case datatransfer.PauseResponder, datatransfer.DataLimitExceeded:
		if !after.ResponderPaused {
			return "ResponderPaused is false"
		}
	case datatransfer.ResumeResponder:
		if after.ResponderPaused && after.Status != datatransfer.Finalizing {
			return "ResponderPaused is still true"
		}
	case datatransfer.NewVoucher:
		if len(after.Vouchers) != len(before.Vouchers)+1 {
			return "voucher log did not grow by one"
		}
	case datatransfer.NewVoucherResult:
		if len(after.Results) != len(before.Results)+1 {
			return "voucher-result log did not grow by one"
		}
	case datatransfer.Cancel:
		if after.Status != datatransfer.Cancelling {
			return "status is not Cancelling"
		}
	case datatransfer.Error:
		if after.Status != datatransfer.Failing {
			return "status is not Failing"
		}
	case datatransfer.Complete:
		if after.Status != datatransfer.Completing {
			return "status is not Completing"
		}
	case datatransfer.BeginFinalizing:
		if after.Status != datatransfer.Finalizing {
			return "status is not Finalizing"
		}
	case datatransfer.CleanupComplete:
		if !isTerminal(after.Status) || !isCleanup(before.Status) {
			return "not a cleanup -> terminal step"
		}
	case datatransfer.Accept:
		if after.Status != datatransfer.Queued && after.Status != datatransfer.Ongoing {
			return "status is neither Queued nor Ongoing"
		}
	case datatransfer.Open:
		if after.Status != datatransfer.Requested {
			return "status is not Requested"
		}
	}
	return ""
}

func containsAny(s string, subs ...string) bool {
	for _, x := range subs {
		if len(x) > 0 && len(s) >= len(x) {
			for i := 0; i+len(x) <= len(s); i++ {
				if s[i:i+len(x)] == x {
					return true
				}
			}
		}
	}
	return false
}

var _ = message.CancelRequest
