package chk

import (
	"context"
	"errors"
	"fmt"
	"math/rand"
	"sync"
	"sync/atomic"
	"testing"
	"time"

	"github.com/ipfs/go-graphsync"
	"github.com/ipfs/go-graphsync/storeutil"
	ipld "github.com/ipld/go-ipld-prime"
	cidlink "github.com/ipld/go-ipld-prime/linking/cid"
	"github.com/libp2p/go-libp2p/core/peer"
	mocknet "github.com/libp2p/go-libp2p/p2p/net/mock"

	datatransfer "github.com/filecoin-project/go-data-transfer/v2"
	"github.com/filecoin-project/go-data-transfer/v2/channelmonitor"
	dtimpl "github.com/filecoin-project/go-data-transfer/v2/impl"
	"github.com/filecoin-project/go-data-transfer/v2/message"
	gst "github.com/filecoin-project/go-data-transfer/v2/transport/graphsync"
	"github.com/filecoin-project/go-data-transfer/v2/transport/graphsync/testharness"

	"verif/harness/internal/doubles"
	"verif/harness/internal/gen"
	"verif/harness/internal/vf"
)

// ---- C20: concurrent use is free of data races and deadlocks ---------------------------------
// All workloads here run on the REAL clock, outside synctest bubbles (true parallelism, mutex
// deadlocks are observable), under the race detector. Hangs are decided by vf.HangCheck.

type opCounter struct {
	mu sync.Mutex
	m  map[string]int
}

func (o *opCounter) add(k string) { o.mu.Lock(); o.m[k]++; o.mu.Unlock() }

// TestC20Manager: many goroutines on the manager API, the transport callback surface and the
// network receiver, with re-entrant subscribers, then Stop mid-flight.
func TestC20Manager(t *testing.T) {
	vf.Run(t, "C20Manager", vf.Opts{Bubble: false, DefaultN: 4}, func(c *vf.Case) {
		r := c.Rng
		peers := gen.Peers(r, 4)
		self := peers[0]
		f := newMgrFixPlain(c, self, nil)
		oc := &opCounter{m: map[string]int{}}
		var stopping atomic.Bool
		// per-transfer subscribers (WithSubscriber) that linger in the callback on ending events, so that
		// Stop, closes and new opens overlap with the delivery of a channel's terminal event
		var perCalls atomic.Int64
		perTransfer := func(ev datatransfer.Event, st datatransfer.ChannelState) {
			perCalls.Add(1)
			if s := st.Status(); isTerminal(s) || isCleanup(s) {
				doubles.Yield(300)
				if !stopping.Load() {
					f.m.ChannelState(bg, st.ChannelID())
				}
			}
		}
		// population
		type chT struct {
			chid  datatransfer.ChannelID
			role  role
			other peer.ID
		}
		var pmu sync.Mutex
		var chs []chT
		v := gen.SimpleVoucher("VT0", "v")
		for i := 0; i < 2+r.Intn(5); i++ {
			rl := gen.Pick(r, allRoles)
			other := peers[1+r.Intn(3)]
			if rl.Initiator {
				chid, err := f.open(rl.Pull, other, v, dummyCid, datatransfer.WithSubscriber(perTransfer))
				if err == nil {
					chs = append(chs, chT{chid, rl, other})
				}
			} else {
				tid := datatransfer.TransferID(100 + i)
				chid := datatransfer.ChannelID{Initiator: other, Responder: self, ID: tid}
				req, _ := message.NewRequest(tid, false, rl.Pull, &v, dummyCid, gen.AllSelector)
				w, _ := doubles.Reencode(req)
				if rl.Pull {
					f.tp.Events().OnRequestReceived(chid, w.(datatransfer.Request))
				} else {
					f.net.Deliver(other, w)
				}
				chs = append(chs, chT{chid, rl, other})
			}
		}
		pick := func(rr *rand.Rand) chT { pmu.Lock(); defer pmu.Unlock(); return chs[rr.Intn(len(chs))] }
		_ = pick
		// re-entrant subscribers: exactly the calls the property lists, from inside the callback
		var reent atomic.Int64
		reentrant := func(seed int64) datatransfer.Subscriber {
			rr := rand.New(rand.NewSource(seed))
			var mu sync.Mutex
			return func(ev datatransfer.Event, st datatransfer.ChannelState) {
				if stopping.Load() {
					return
				}
				mu.Lock()
				k := rr.Intn(40)
				mu.Unlock()
				chid := st.ChannelID()
				ctx, cancel := context.WithTimeout(bg, 2*time.Second)
				defer cancel()
				switch k {
				case 0:
					f.m.ChannelState(ctx, chid)
				case 1:
					f.m.SendVoucher(ctx, chid, v)
				case 2:
					f.m.SendVoucherResult(ctx, chid, v)
				case 3:
					f.m.UpdateValidationStatus(ctx, chid, datatransfer.ValidationResult{Accepted: true, DataLimit: 1 << 40})
				case 4:
					f.m.PauseDataTransferChannel(ctx, chid)
				case 5:
					f.m.ResumeDataTransferChannel(ctx, chid)
				case 6:
					if ev.Code == datatransfer.Disconnected {
						f.m.CloseDataTransferChannel(ctx, chid)
					}
				case 7:
					f.m.TransferChannelStatus(ctx, chid)
				default:
					return
				}
				reent.Add(1)
			}
		}
		f.m.SubscribeToEvents(reentrant(c.Seed + 1))
		f.m.SubscribeToEvents(reentrant(c.Seed + 2))
		g := 8 + r.Intn(17)
		nops := 60 + r.Intn(90)
		seeds := make([]int64, g)
		for i := range seeds {
			seeds[i] = r.Int63()
		}
		ok := c.HangCheck("C20", "manager-stress", 60*time.Second, func() {
			var wg sync.WaitGroup
			for gi := 0; gi < g; gi++ {
				wg.Add(1)
				go func(gi int) {
					defer wg.Done()
					rr := rand.New(rand.NewSource(seeds[gi]))
					var unsubs []datatransfer.Unsubscribe
					for i := 0; i < nops; i++ {
						ch := pick(rr)
						ctx, cancel := context.WithTimeout(bg, 2*time.Second)
						ev := f.tp.Events()
						tv := gen.SimpleVoucher("VT0", fmt.Sprint(gi, i))
						switch k := rr.Intn(30); k {
						case 0:
							var oo []datatransfer.TransferOption
							if rr.Intn(2) == 0 {
								oo = append(oo, datatransfer.WithSubscriber(perTransfer))
							}
							if chid, err := f.open(rr.Intn(2) == 0, peers[1+rr.Intn(3)], tv, dummyCid, oo...); err == nil {
								pmu.Lock()
								if len(chs) < 40 {
									chs = append(chs, chT{chid, role{true, false}, chid.Responder})
								}
								pmu.Unlock()
							}
							oc.add("open")
						case 1:
							f.m.CloseDataTransferChannel(ctx, ch.chid)
							oc.add("close")
						case 2:
							f.m.PauseDataTransferChannel(ctx, ch.chid)
							oc.add("pause")
						case 3:
							f.m.ResumeDataTransferChannel(ctx, ch.chid)
							oc.add("resume")
						case 4:
							f.m.RestartDataTransferChannel(ctx, ch.chid)
							oc.add("restart")
						case 5:
							f.m.SendVoucher(ctx, ch.chid, tv)
							oc.add("sendvoucher")
						case 6:
							f.m.SendVoucherResult(ctx, ch.chid, tv)
							oc.add("sendresult")
						case 7:
							f.m.UpdateValidationStatus(ctx, ch.chid, datatransfer.ValidationResult{Accepted: rr.Intn(8) != 0, DataLimit: uint64(rr.Intn(5000))})
							oc.add("updatevalidation")
						case 8:
							f.m.ChannelState(ctx, ch.chid)
							oc.add("channelstate")
						case 9:
							f.m.InProgressChannels(ctx)
							oc.add("inprogress")
						case 10:
							unsubs = append(unsubs, f.m.SubscribeToEvents(func(datatransfer.Event, datatransfer.ChannelState) {}))
							oc.add("subscribe")
						case 11:
							if len(unsubs) > 0 {
								unsubs[0]()
								unsubs = unsubs[1:]
							}
							oc.add("unsubscribe")
						case 12, 13:
							ev.OnDataReceived(ch.chid, dummyLink, uint64(1+rr.Intn(1000)), int64(rr.Intn(60)), rr.Intn(3) != 0)
							oc.add("cb.datareceived")
						case 14, 15:
							ev.OnDataQueued(ch.chid, dummyLink, uint64(1+rr.Intn(1000)), int64(rr.Intn(60)), rr.Intn(3) != 0)
							ev.OnDataSent(ch.chid, dummyLink, uint64(1+rr.Intn(1000)), int64(rr.Intn(60)), true)
							oc.add("cb.dataqueued+sent")
						case 16:
							ev.OnTransferInitiated(ch.chid)
							ev.OnChannelOpened(ch.chid)
							oc.add("cb.initiated+opened")
						case 17:
							if rr.Intn(4) == 0 {
								ev.OnChannelCompleted(ch.chid, nil)
							} else {
								ev.OnSendDataError(ch.chid, errors.New("x"))
								ev.OnReceiveDataError(ch.chid, errors.New("y"))
							}
							oc.add("cb.completed/errors")
						case 18:
							ev.OnRequestDisconnected(ch.chid, errors.New("d"))
							ev.OnRequestCancelled(ch.chid, errors.New("c"))
							oc.add("cb.disconnected+cancelled")
						case 19, 20, 21, 22:
							// a message of any kind from the counterparty, over the network or the transport
							var m datatransfer.Message
							if ch.role.Initiator {
								switch rr.Intn(6) {
								case 0:
									m, _ = message.NewResponse(ch.chid.ID, true, rr.Intn(2) == 0, nil)
								case 1:
									m = message.UpdateResponse(ch.chid.ID, rr.Intn(2) == 0)
								case 2:
									m, _ = message.VoucherResultResponse(ch.chid.ID, true, false, &tv)
								case 3:
									m, _ = message.CompleteResponse(ch.chid.ID, true, rr.Intn(2) == 0, nil)
								case 4:
									m, _ = message.RestartResponse(ch.chid.ID, true, false, nil)
								default:
									m = message.RestartExistingChannelRequest(ch.chid)
								}
							} else {
								switch rr.Intn(5) {
								case 0:
									m = message.UpdateRequest(ch.chid.ID, rr.Intn(2) == 0)
								case 1:
									m, _ = message.VoucherRequest(ch.chid.ID, &tv)
								case 2:
									m, _ = message.NewRequest(ch.chid.ID, true, ch.role.Pull, &v, dummyCid, gen.AllSelector)
								case 3:
									m, _ = message.NewRequest(ch.chid.ID, false, ch.role.Pull, &v, dummyCid, gen.AllSelector)
								default:
									if rr.Intn(6) == 0 {
										m = message.CancelRequest(ch.chid.ID)
									} else {
										m = message.UpdateRequest(ch.chid.ID, false)
									}
								}
							}
							w, _ := doubles.Reencode(m)
							if rr.Intn(2) == 0 || isRestartExisting(w) {
								f.net.Deliver(ch.other, w)
							} else if w.IsRequest() {
								ev.OnRequestReceived(ch.chid, w.(datatransfer.Request))
							} else {
								ev.OnResponseReceived(ch.chid, w.(datatransfer.Response))
							}
							oc.add("message")
						default:
							f.m.TransferChannelStatus(ctx, ch.chid)
							oc.add("status")
						}
						cancel()
					}
					for _, u := range unsubs {
						u()
					}
				}(gi)
			}
			// stop while the second half of the operations is still running
			time.Sleep(time.Duration(5+r.Intn(40)) * time.Millisecond)
			if r.Intn(2) == 0 {
				stopping.Store(true)
				f.m.Stop(bg)
			}
			wg.Wait()
		})
		if ok {
			c.HangCheck("C20", "manager-stop", 30*time.Second, func() {
				stopping.Store(true)
				f.m.Stop(bg)
			})
		}
		f.checkProbes()
		total := 0
		oc.mu.Lock()
		for k, n := range oc.m {
			c.Count("op."+k, n)
			total += n
		}
		oc.mu.Unlock()
		c.Count("operations", total)
		c.Count("reentrant_calls", int(reent.Load()))
		c.Count("per_transfer_subscriber_calls", int(perCalls.Load()))
		c.Count("goroutines", g)
		c.Mark("idx=%d", c.Index)
		c.NonTrivial()
		if c.Index < 2 {
			c.Sample(map[string]any{"goroutines": g, "ops_per_goroutine": nops, "channels": len(chs), "reentrant_calls": reent.Load(), "completed": ok})
		}
	})
}

// TestC20Transport: concurrent graphsync callbacks of every kind, carrying every message kind,
// racing the transport API. Per-channel control operations are issued by one goroutine per
// channel (CleanupChannel overlapping OpenChannel of the same channel is a dedicated hazard case).
func TestC20Transport(t *testing.T) {
	vf.Run(t, "C20Transport", vf.Opts{Bubble: false, DefaultN: 4}, func(c *vf.Case) {
		r := c.Rng
		peers := gen.Peers(r, 3)
		self := peers[0]
		f := newTrFix(c, self)
		f.ev.SetReply(func(h doubles.HCall) (datatransfer.Message, error) {
			switch h.Op {
			case "OnRequestReceived":
				if rq, ok := h.Msg.(datatransfer.Request); ok && (rq.IsNew() || rq.IsRestart()) {
					m, _ := message.NewResponse(h.Chid.ID, true, false, nil)
					return m, nil
				}
			case "OnDataQueued":
				if h.Index%11 == 10 {
					return message.UpdateResponse(h.Chid.ID, true), datatransfer.ErrPause
				}
			case "OnDataReceived":
				if h.Index%13 == 12 {
					return nil, datatransfer.ErrPause
				}
			}
			return nil, nil
		})
		nch := 2 + r.Intn(5)
		chs := make([]*tch, nch)
		var idMu sync.Mutex
		var inIDs, outIDs []graphsync.RequestID
		for i := range chs {
			other := peers[1+r.Intn(2)]
			ch := &tch{other: other, out: r.Intn(2) == 0}
			if r.Intn(2) == 0 {
				ch.chid = datatransfer.ChannelID{Initiator: self, Responder: other, ID: datatransfer.TransferID(i + 1)}
			} else {
				ch.chid = datatransfer.ChannelID{Initiator: other, Responder: self, ID: datatransfer.TransferID(i + 1)}
			}
			chs[i] = ch
		}
		oc := &opCounter{m: map[string]int{}}
		v := gen.SimpleVoucher("VT0", "v")
		dtMsg := func(rr *rand.Rand, ch *tch, asRequest bool) datatransfer.Message {
			tv := gen.SimpleVoucher("VT0", fmt.Sprint(rr.Int63()))
			if asRequest {
				switch rr.Intn(5) {
				case 0:
					m, _ := message.NewRequest(ch.chid.ID, false, true, &v, dummyCid, gen.AllSelector)
					return m
				case 1:
					m, _ := message.NewRequest(ch.chid.ID, true, true, &v, dummyCid, gen.AllSelector)
					return m
				case 2:
					return message.UpdateRequest(ch.chid.ID, rr.Intn(2) == 0)
				case 3:
					m, _ := message.VoucherRequest(ch.chid.ID, &tv)
					return m
				default:
					return message.RestartExistingChannelRequest(ch.chid)
				}
			}
			switch rr.Intn(6) {
			case 0:
				m, _ := message.NewResponse(ch.chid.ID, true, rr.Intn(2) == 0, nil)
				return m
			case 1:
				m, _ := message.RestartResponse(ch.chid.ID, true, false, &tv)
				return m
			case 2:
				return message.UpdateResponse(ch.chid.ID, rr.Intn(2) == 0)
			case 3:
				m, _ := message.VoucherResultResponse(ch.chid.ID, true, false, &tv)
				return m
			case 4:
				m, _ := message.CompleteResponse(ch.chid.ID, true, rr.Intn(2) == 0, nil)
				return m
			default:
				return message.CancelResponse(ch.chid.ID)
			}
		}
		hookers := 4 + r.Intn(5)
		nops := 150 + r.Intn(150)
		seeds := make([]int64, hookers+nch)
		for i := range seeds {
			seeds[i] = r.Int63()
		}
		ok := c.HangCheck("C20", "transport-stress", 60*time.Second, func() {
			var wg sync.WaitGroup
			// one controller per channel: open / pause / resume / close / cleanup / options, in sequence
			for ci, ch := range chs {
				wg.Add(1)
				go func(ci int, ch *tch) {
					defer wg.Done()
					rr := rand.New(rand.NewSource(seeds[ci]))
					for i := 0; i < nops/4; i++ {
						ctx, cancel := context.WithTimeout(bg, 300*time.Millisecond)
						switch rr.Intn(8) {
						case 0, 1:
							if ch.out {
								var msg datatransfer.Message
								if ch.chid.Initiator == self {
									msg, _ = message.NewRequest(ch.chid.ID, rr.Intn(2) == 0, true, &v, dummyCid, gen.AllSelector)
								} else {
									msg, _ = message.NewResponse(ch.chid.ID, true, false, nil)
								}
								n := f.gs.Len()
								f.tr.OpenChannel(ctx, ch.other, ch.chid, dummyLink, gen.AllSelector, nil, msg)
								idMu.Lock()
								for _, gc := range f.gs.Calls()[n:] {
									if gc.Op == "request" {
										outIDs = append(outIDs, gc.ID)
									}
								}
								idMu.Unlock()
								oc.add("open")
							}
						case 2:
							f.tr.PauseChannel(ctx, ch.chid)
							oc.add("pause")
						case 3:
							f.tr.ResumeChannel(ctx, message.UpdateResponse(ch.chid.ID, false), ch.chid)
							oc.add("resume")
						case 4:
							f.tr.CloseChannel(ctx, ch.chid)
							oc.add("close")
						case 5:
							if rr.Intn(3) == 0 {
								f.tr.CleanupChannel(ch.chid)
								oc.add("cleanup")
							}
						case 6:
							f.tr.UseStore(ch.chid, ipld.LinkSystem{})
							f.tr.MaxLinks(ch.chid, uint64(rr.Intn(100)))
							oc.add("options")
						default:
							// (Transport.ChannelsForPeer reads the current request id without the channel lock;
							// it is a diagnostic accessor outside the surface the property lists and is not driven)
							f.tr.PauseChannel(ctx, ch.chid)
							oc.add("pause")
						}
						cancel()
					}
				}(ci, ch)
			}
			for h := 0; h < hookers; h++ {
				wg.Add(1)
				go func(h int) {
					defer wg.Done()
					rr := rand.New(rand.NewSource(seeds[nch+h]))
					for i := 0; i < nops; i++ {
						ch := chs[rr.Intn(nch)]
						p := ch.other
						idMu.Lock()
						var in, out graphsync.RequestID
						hasIn, hasOut := len(inIDs) > 0, len(outIDs) > 0
						if hasIn {
							in = inIDs[rr.Intn(len(inIDs))]
						}
						if hasOut {
							out = outIDs[rr.Intn(len(outIDs))]
						}
						idMu.Unlock()
						blk := doubles.Block(uint64(1+rr.Intn(2000)), int64(rr.Intn(40)), rr.Intn(4) != 0)
						switch rr.Intn(12) {
						case 0, 1:
							// incoming graphsync request carrying a data-transfer message of any kind
							// (a cancel REQUEST is excluded here: dedicated hazard case)
							weInit := ch.chid.Initiator == self
							m := dtMsg(rr, ch, !weInit)
							id := graphsync.NewRequestID()
							idMu.Lock()
							inIDs = append(inIDs, id)
							idMu.Unlock()
							f.gs.IncomingRequestHook(p, doubles.Req(id, dtExt(m)), &testharness.FakeIncomingRequestHookActions{})
							oc.add("hook.incoming-request")
						case 2:
							if hasIn {
								f.gs.OutgoingBlockHook(p, doubles.Req(in, nil), blk, &testharness.FakeOutgoingBlockHookActions{})
								oc.add("hook.outgoing-block")
							}
						case 3:
							if hasIn {
								f.gs.BlockSentListener(p, doubles.Req(in, nil), blk)
								oc.add("hook.block-sent")
							}
						case 4:
							if hasOut {
								f.gs.IncomingBlockHook(p, doubles.Resp(out, nil, graphsync.PartialResponse), blk, &testharness.FakeIncomingBlockHookActions{})
								oc.add("hook.incoming-block")
							}
						case 5:
							if hasIn {
								f.gs.CompletedResponseListener(p, doubles.Req(in, nil), gen.Pick(rr, []graphsync.ResponseStatusCode{graphsync.RequestCompletedFull, graphsync.RequestCancelled, graphsync.RequestFailedUnknown}))
								oc.add("hook.completed-response")
							}
						case 6:
							if hasIn {
								f.gs.RequestorCancelledListener(p, doubles.Req(in, nil))
								oc.add("hook.requestor-cancelled")
							}
						case 7:
							if hasIn {
								f.gs.NetworkErrorListener(p, doubles.Req(in, nil), errors.New("x"))
							}
							f.gs.ReceiverNetworkErrorListener(p, errors.New("y"))
							oc.add("hook.network-errors")
						case 8:
							if hasOut {
								m := dtMsg(rr, ch, rr.Intn(4) == 0)
								f.gs.IncomingResponseHook(p, doubles.Resp(out, dtExt(m), graphsync.PartialResponse), &testharness.FakeIncomingResponseHookActions{})
								oc.add("hook.incoming-response")
							}
						case 9:
							if hasIn {
								m := dtMsg(rr, ch, rr.Intn(4) != 0)
								f.gs.RequestUpdatedHook(p, doubles.Req(in, nil), doubles.Req(in, dtExt(m)), &testharness.FakeRequestUpdatedActions{})
								oc.add("hook.request-updated")
							}
						case 10:
							if hasIn {
								f.gs.IncomingRequestProcessingListener(p, doubles.Req(in, nil), 1)
							}
							if hasOut {
								f.gs.OutgoingRequestProcessingListener(p, doubles.Req(out, nil), 1)
							}
							oc.add("hook.processing")
						default:
							if hasOut && rr.Intn(3) == 0 {
								f.gs.Complete(out, gen.Pick(rr, []error{nil, errors.New("boom"), graphsync.RequestClientCancelledErr{}}))
								oc.add("gs.complete")
							}
						}
					}
				}(h)
			}
			wg.Wait()
		})
		if ok {
			c.HangCheck("C20", "transport-shutdown", 30*time.Second, func() {
				ctx, cancel := context.WithTimeout(bg, 5*time.Second)
				defer cancel()
				f.tr.Shutdown(ctx)
			})
		}
		for _, gc := range f.gs.Calls() {
			if gc.Op == "request" {
				f.gs.Complete(gc.ID, nil)
			}
		}
		total := 0
		oc.mu.Lock()
		for k, n := range oc.m {
			c.Count("op."+k, n)
			total += n
		}
		oc.mu.Unlock()
		c.Count("operations", total)
		c.Count("handler_calls", f.ev.Len())
		c.Mark("idx=%d", c.Index)
		c.NonTrivial()
		if c.Index < 2 {
			c.Sample(map[string]any{"channels": nch, "hook_goroutines": hookers, "ops_per_goroutine": nops, "handler_calls": f.ev.Len(), "completed": ok})
		}
	})
}

// TestC20Monitor: the channel monitor under bursts of events from many goroutines and shutdown.
func TestC20Monitor(t *testing.T) {
	vf.Run(t, "C20Monitor", vf.Opts{Bubble: false, DefaultN: 4}, func(c *vf.Case) {
		r := c.Rng
		peers := gen.Peers(r, 6)
		api := newMonAPI(peers[0])
		cfg := &channelmonitor.Config{AcceptTimeout: time.Duration(r.Intn(3)) * 20 * time.Millisecond, RestartDebounce: time.Duration(r.Intn(3)) * time.Millisecond,
			RestartBackoff: time.Duration(r.Intn(3)) * time.Millisecond, MaxConsecutiveRestarts: uint32(1 + r.Intn(5)), CompleteTimeout: time.Duration(r.Intn(3)) * 20 * time.Millisecond}
		m := channelmonitor.NewMonitor(api, cfg)
		nch := 1 + r.Intn(5)
		chids := make([]datatransfer.ChannelID, nch)
		for i := range chids {
			chids[i] = datatransfer.ChannelID{Initiator: peers[0], Responder: peers[1+i], ID: datatransfer.TransferID(i + 1)}
			api.stall[chids[i]] = 0
		}
		g := 4 + r.Intn(8)
		seeds := make([]int64, g)
		for i := range seeds {
			seeds[i] = r.Int63()
		}
		var fired atomic.Int64
		ok := c.HangCheck("C20", "monitor-stress", 60*time.Second, func() {
			var wg sync.WaitGroup
			for gi := 0; gi < g; gi++ {
				wg.Add(1)
				go func(gi int) {
					defer wg.Done()
					rr := rand.New(rand.NewSource(seeds[gi]))
					for i := 0; i < 200; i++ {
						chid := chids[rr.Intn(nch)]
						switch rr.Intn(10) {
						case 0:
							if rr.Intn(2) == 0 {
								m.AddPushChannel(chid)
							} else {
								m.AddPullChannel(chid)
							}
						case 1, 2, 3:
							api.fire(gen.Pick(rr, []datatransfer.EventCode{datatransfer.SendDataError, datatransfer.ReceiveDataError}), datatransfer.Ongoing, chid)
						case 4, 5:
							api.fire(gen.Pick(rr, []datatransfer.EventCode{datatransfer.DataSent, datatransfer.DataReceived, datatransfer.Accept}), datatransfer.Ongoing, chid)
						case 6:
							api.fire(datatransfer.FinishTransfer, datatransfer.TransferFinished, chid)
						case 7:
							if rr.Intn(4) == 0 {
								api.fire(datatransfer.CleanupComplete, gen.Pick(rr, []datatransfer.Status{datatransfer.Completed, datatransfer.Cancelling, datatransfer.Failed}), chid)
							}
						default:
							api.fire(datatransfer.NewVoucher, datatransfer.Ongoing, chid)
						}
						fired.Add(1)
					}
				}(gi)
			}
			wg.Wait()
			for _, chid := range chids {
				api.fire(datatransfer.CleanupComplete, datatransfer.Completed, chid)
			}
			m.Shutdown()
		})
		_ = ok
		calls, _ := api.snapshot()
		c.Count("events", int(fired.Load()))
		c.Count("api_calls", len(calls))
		c.Mark("idx=%d", c.Index)
		c.NonTrivial()
		if c.Index < 1 {
			c.Sample(map[string]any{"channels": nch, "goroutines": g, "events_fired": fired.Load(), "monitor_api_calls": len(calls)})
		}
	})
}

// TestC20Hazard: the known hang triggers, one per case, each expected to show exactly its
// fingerprint (known_findings.json) until the defect is repaired. A different hang is a violation.
func TestC20Hazard(t *testing.T) {
	vf.Run(t, "C20Hazard", vf.Opts{Bubble: false, DefaultN: 4}, func(c *vf.Case) {
		r := c.Rng
		peers := gen.Peers(r, 2)
		self, other := peers[0], peers[1]
		v := gen.SimpleVoucher("VT0", "v")
		switch c.Index % 9 {
		case 3:
			// (ii) the responder's graphsync request (carrying its acceptance) is in the incoming-request
			// hook while the same channel is being closed / failed: hook and cleanup meet
			f := newGsMgrFixPlain(c, self)
			c.HangCheck("C20", "hook-overlapping-ending", 20*time.Second, func() {
				for i := 0; i < 40; i++ {
					y1, y2 := r.Intn(200), r.Intn(200)
					chid, err := f.m.OpenPushDataChannel(bg, other, v, dummyCid, gen.AllSelector)
					if err != nil {
						continue
					}
					resp, _ := message.NewResponse(chid.ID, true, false, nil)
					var wg sync.WaitGroup
					wg.Add(2)
					go func() {
						defer wg.Done()
						doubles.Yield(y1)
						f.gs.IncomingRequestHook(other, doubles.Req(graphsync.NewRequestID(), dtExt(resp)), &testharness.FakeIncomingRequestHookActions{})
					}()
					go func() {
						defer wg.Done()
						doubles.Yield(y2)
						if i%2 == 0 {
							f.m.CloseDataTransferChannel(bg, chid)
						} else {
							f.m.(closerWithError).CloseDataTransferChannelWithError(bg, chid, errors.New("gave up"))
						}
					}()
					wg.Wait()
				}
			})
			c.HangCheck("C20", "manager-stop", 20*time.Second, func() { f.m.Stop(bg) })
			c.Count("hazard.hook-overlapping-ending", 1)
		case 0:
			// (i) an incoming graphsync request whose extension carries a data-transfer CANCEL request
			f := newGsMgrFixPlain(c, self)
			tid := datatransfer.TransferID(7)
			req, _ := message.NewRequest(tid, false, true, &v, dummyCid, gen.AllSelector)
			f.gs.IncomingRequestHook(other, doubles.Req(graphsync.NewRequestID(), dtExt(req)), &testharness.FakeIncomingRequestHookActions{})
			c.HangCheck("C20", "gs-request-carrying-cancel", 4*time.Second, func() {
				f.gs.IncomingRequestHook(other, doubles.Req(graphsync.NewRequestID(), dtExt(message.CancelRequest(tid))), &testharness.FakeIncomingRequestHookActions{})
			})
			c.Count("hazard.cancel-in-gs-request", 1)
		case 1:
			// (iv) the events handler refuses the opened channel from inside the outgoing-request hook
			f := newTrFix(c, self)
			f.ev.SetReply(func(h doubles.HCall) (datatransfer.Message, error) {
				if h.Op == "OnChannelOpened" {
					return nil, errors.New("channel is gone")
				}
				return nil, nil
			})
			chid := datatransfer.ChannelID{Initiator: self, Responder: other, ID: 9}
			msg, _ := message.NewRequest(9, false, true, &v, dummyCid, gen.AllSelector)
			c.HangCheck("C20", "open-refused-by-handler", 4*time.Second, func() {
				// callers such as the restart path pass contexts without a deadline
				f.tr.OpenChannel(bg, other, chid, dummyLink, gen.AllSelector, nil, msg)
			})
			c.Count("hazard.open-refused", 1)
		case 2:
			// (iii) CleanupChannel lands between OpenChannel's tracking and the outgoing-request hook
			f := newTrFix(c, self)
			chid := datatransfer.ChannelID{Initiator: self, Responder: other, ID: 11}
			msg, _ := message.NewRequest(11, false, true, &v, dummyCid, gen.AllSelector)
			f.gs.BeforeHook = func() {
				go f.tr.CleanupChannel(chid)
				time.Sleep(50 * time.Millisecond) // let the cleanup remove the tracking entry
			}
			c.HangCheck("C20", "cleanup-during-open", 4*time.Second, func() {
				f.tr.OpenChannel(bg, other, chid, dummyLink, gen.AllSelector, nil, msg)
				// a second open on the same channel must still work
				f.gs.BeforeHook = nil
				f.tr.OpenChannel(bg, other, chid, dummyLink, gen.AllSelector, nil, msg)
				f.tr.PauseChannel(bg, chid)
			})
			c.Count("hazard.cleanup-during-open", 1)
		case 8:
			// (viii) block reports of the same kind for the SAME channel from several goroutines at the same
			// instant (overlapping old and restarted transport requests do that): every report returns
			f := newMgrFixPlain(c, self, nil)
			tid := datatransfer.TransferID(77)
			chid := datatransfer.ChannelID{Initiator: other, Responder: self, ID: tid}
			req, _ := message.NewRequest(tid, false, true, &v, dummyCid, gen.AllSelector)
			w, _ := doubles.Reencode(req)
			f.tp.Events().OnRequestReceived(chid, w.(datatransfer.Request))
			f.tp.Events().OnTransferInitiated(chid)
			idx := int64(0)
			for chunk := 0; chunk < 20; chunk++ { // (in chunks, so that the time limit judges a little work, whatever the machine load)
				if !c.HangCheck("C20", "simultaneous-block-reports-same-channel", 40*time.Second, func() {
					for round := 0; round < 100; round++ {
						var wg sync.WaitGroup
						start := make(chan struct{})
						n := 2 + round%4
						for g := 0; g < n; g++ {
							wg.Add(1)
							i := idx + int64(g) + 1
							go func() {
								defer wg.Done()
								<-start
								f.tp.Events().OnDataQueued(chid, dummyLink, 10, i, true)
							}()
						}
						idx += int64(n)
						close(start)
						wg.Wait()
						// ... and the very FIRST reports for a channel id the manager has not handled in this
						// lifetime (a channel restored from the datastore, an id it does not know) arriving
						// from several goroutines at once: every one of them returns as well
						fresh := datatransfer.ChannelID{Initiator: other, Responder: self, ID: datatransfer.TransferID(100000 + chunk*1000 + round)}
						start2 := make(chan struct{})
						for g := 0; g < n; g++ {
							wg.Add(1)
							go func() {
								defer wg.Done()
								<-start2
								f.tp.Events().OnDataQueued(fresh, dummyLink, 10, 1, true)
							}()
						}
						close(start2)
						wg.Wait()
					}
				}) {
					break
				}
			}
			c.HangCheck("C20", "manager-stop", 20*time.Second, func() { f.m.Stop(bg) })
			c.Count("hazard.simultaneous-reports-same-channel", 2000)
			c.Count("hazard.simultaneous-first-reports-new-channel", 2000)
		case 7:
			// (vii) Stop arrives while a per-transfer subscriber is still handling the channel's terminal event
			f := newMgrFixPlain(c, self, nil)
			entered, release := make(chan struct{}, 1), make(chan struct{})
			cb := func(ev datatransfer.Event, st datatransfer.ChannelState) {
				if isTerminal(st.Status()) {
					select {
					case entered <- struct{}{}:
						<-release
					default:
					}
				}
			}
			chid, err := f.m.OpenPushDataChannel(bg, other, v, dummyCid, gen.AllSelector, datatransfer.WithSubscriber(cb))
			if err != nil {
				panic(err)
			}
			c.HangCheck("C20", "stop-while-subscriber-handles-terminal-event", 10*time.Second, func() {
				var wg sync.WaitGroup
				wg.Add(2)
				go func() { defer wg.Done(); f.m.CloseDataTransferChannel(bg, chid) }()
				select {
				case <-entered:
				case <-time.After(5 * time.Second):
				}
				go func() { defer wg.Done(); f.m.Stop(bg) }()
				time.Sleep(100 * time.Millisecond) // Stop is under way while the callback is still running
				close(release)
				wg.Wait()
			})
			c.Count("hazard.stop-vs-terminal-subscriber", 1)
		case 6:
			// (vi) Stop arrives while block reports that reach their channel's data limit are in flight (the
			// report that crosses the limit sends two or three events in a row, under the lock Stop needs)
			for round := 0; round < 6; round++ {
				f := newMgrFixPlain(c, self, nil)
				f.val.SetOutcome(func(kind string, n int, ch datatransfer.ChannelID) (datatransfer.ValidationResult, error) {
					return datatransfer.ValidationResult{Accepted: true, DataLimit: 1000}, nil
				})
				var chids []datatransfer.ChannelID
				for i := 0; i < 12; i++ {
					tid := datatransfer.TransferID(100*round + i + 1)
					chid := datatransfer.ChannelID{Initiator: other, Responder: self, ID: tid}
					req, _ := message.NewRequest(tid, false, true, &v, dummyCid, gen.AllSelector)
					w, _ := doubles.Reencode(req)
					if resp, _ := f.tp.Events().OnRequestReceived(chid, w.(datatransfer.Request)); resp != nil && resp.Accepted() {
						f.tp.Events().OnTransferInitiated(chid)
						chids = append(chids, chid)
					}
				}
				delay := r.Intn(400)
				c.HangCheck("C20", "stop-while-reports-reach-data-limit", 10*time.Second, func() {
					var wg sync.WaitGroup
					start := make(chan struct{})
					for _, chid := range chids {
						wg.Add(1)
						go func(chid datatransfer.ChannelID) {
							defer wg.Done()
							<-start
							f.tp.Events().OnDataQueued(chid, dummyLink, 1200, 1, true)
							f.tp.Events().OnDataQueued(chid, dummyLink, 10, 2, true)
						}(chid)
					}
					wg.Add(1)
					go func() {
						defer wg.Done()
						<-start
						doubles.Yield(delay)
						f.m.Stop(bg)
					}()
					close(start)
					wg.Wait()
				})
				c.Count("hazard.stop-vs-limit-reports", len(chids))
			}
		case 4, 5:
			// (v) pause / resume of a channel while a graphsync message for the SAME channel is queued in
			// the graphsync manager loop that serves the pause: the loop then runs the transport's hook
			// (case 4: incoming request at the responder of a pull, response manager; case 5: incoming
			// response at the requester, request manager), which needs the channel the caller is using
			f := newGsMgrFixPlain(c, self)
			var chid datatransfer.ChannelID
			inLoop, release := make(chan struct{}, 1), make(chan struct{})
			var deliver func()
			if c.Index%9 == 4 {
				tid := datatransfer.TransferID(21)
				chid = datatransfer.ChannelID{Initiator: other, Responder: self, ID: tid}
				req, _ := message.NewRequest(tid, false, true, &v, dummyCid, gen.AllSelector)
				f.gs.IncomingRequestHook(other, doubles.Req(graphsync.NewRequestID(), dtExt(req)), &testharness.FakeIncomingRequestHookActions{})
				restart, _ := message.NewRequest(tid, true, true, &v, dummyCid, gen.AllSelector)
				deliver = func() {
					f.gs.IncomingRequestHook(other, doubles.Req(graphsync.NewRequestID(), dtExt(restart)), &testharness.FakeIncomingRequestHookActions{})
				}
			} else {
				var err error
				chid, err = f.m.OpenPullDataChannel(bg, other, v, dummyCid, gen.AllSelector)
				if err != nil {
					panic(err)
				}
				id, _ := f.lastRequest()
				resp, _ := message.NewResponse(chid.ID, true, false, nil)
				deliver = func() {
					f.gs.IncomingResponseHook(other, doubles.Resp(id, dtExt(resp), graphsync.PartialResponse), &testharness.FakeIncomingResponseHookActions{})
				}
			}
			if f.view(chid) == nil {
				panic("hazard channel was not created")
			}
			ncalls := f.gs.Len()
			f.gs.SetLoopGate(func(loop, hook string) {
				select {
				case inLoop <- struct{}{}:
					<-release
				default:
				}
			})
			useResume := c.Index%18 >= 9
			c.HangCheck("C20", fmt.Sprintf("pause-resume-while-message-queued-in-graphsync-loop case=%d resume=%v", c.Index%9, useResume), 6*time.Second, func() {
				var wg sync.WaitGroup
				wg.Add(2)
				go func() { defer wg.Done(); deliver() }()
				<-inLoop // the loop has picked the message up; its hook has not started yet
				go func() {
					defer wg.Done()
					if useResume {
						f.tr.ResumeChannel(bg, nil, chid)
					} else {
						f.m.PauseDataTransferChannel(bg, chid)
					}
				}()
				// wait until the pause/resume has reached graphsync (it is now waiting for the loop)
				for i := 0; i < 2000; i++ {
					reached := false
					for _, gc := range f.gs.Calls()[ncalls:] {
						if gc.Op == "pause" || gc.Op == "unpause" {
							reached = true
						}
					}
					if reached {
						c.Count("hazard.pause-reached-graphsync-with-message-queued", 1)
						break
					}
					time.Sleep(time.Millisecond)
				}
				close(release)
				wg.Wait()
			})
			f.gs.SetLoopGate(nil)
			c.HangCheck("C20", "manager-stop", 20*time.Second, func() { f.m.Stop(bg) })
			c.Count("hazard.pause-vs-queued-graphsync-message", 1)
		}
		c.Mark("hazard=%d", c.Index%9)
		c.NonTrivial()
		if c.Index < 3 {
			c.Sample(map[string]any{"hazard": []string{"gs request carrying a dt cancel request", "OnChannelOpened refuses inside the outgoing-request hook", "CleanupChannel between OpenChannel and its outgoing-request hook", "incoming-request hook overlapping the ending of the same channel", "pause/resume while an incoming request for the channel is queued in graphsync's response manager loop", "pause/resume while an incoming response for the channel is queued in graphsync's request manager loop", "Stop while block reports that reach the data limit are in flight", "Stop while a per-transfer subscriber handles the terminal event", "simultaneous block reports of one kind for one channel"}[c.Index%9]})
		}
	})
}

// newGsMgrFixPlain is newGsMgrFix for tests on the real clock.
func newGsMgrFixPlain(c *vf.Case, self peer.ID) *gsMgrFix {
	f := &gsMgrFix{c: c, self: self, ds: doubles.NewRecDS(), net: doubles.NewRecNet(self), gs: doubles.NewFakeGS(), val: doubles.NewRecValidator(), sub: &doubles.SubLog{}}
	f.tr = gst.NewTransport(self, f.gs)
	m, err := dtimpl.NewDataTransfer(f.ds, f.net, f.tr)
	if err != nil {
		panic(err)
	}
	f.m = m
	for _, t := range regTypes {
		m.RegisterVoucherType(datatransfer.TypeIdentifier(t), f.val)
	}
	m.SubscribeToEvents(f.sub.Fn())
	ready := make(chan struct{})
	m.OnReady(func(error) { close(ready) })
	if err := m.Start(bg); err != nil {
		panic(err)
	}
	<-ready
	return f
}

// TestC20E2E: two full nodes on the REAL clock (mocknet + real graphsync + real stack), several
// simultaneous transfers in both directions with pauses, resumes, closes, restarts and disconnects
// from other goroutines, then Stop while transfers may still be active.
func TestC20E2E(t *testing.T) {
	vf.Run(t, "C20E2E", vf.Opts{Bubble: false, DefaultN: 3, WatchdogSec: 150}, func(c *vf.Case) {
		r := c.Rng
		ctx, cancel := context.WithCancel(context.Background())
		mn := mocknet.New()
		h1, err := mn.GenPeer()
		if err != nil {
			panic(err)
		}
		h2, _ := mn.GenPeer()
		mn.LinkAll()
		mon := &channelmonitor.Config{AcceptTimeout: 3 * time.Second, RestartDebounce: 20 * time.Millisecond, RestartBackoff: 50 * time.Millisecond, MaxConsecutiveRestarts: 4, CompleteTimeout: 3 * time.Second}
		A := newE2ENode(ctx, h1, "A", mon)
		B := newE2ENode(ctx, h2, "B", mon)
		n := 4 + r.Intn(7)
		type xfer struct {
			chid datatransfer.ChannelID
			from *e2eNode
		}
		var xs []xfer
		for i := 0; i < n; i++ {
			src, dst := A, B
			if r.Intn(2) == 0 {
				src, dst = B, A
			}
			lsys := storeutil.LinkSystemForBlockstore(src.bs)
			root := buildDAG(r, &lsys)
			rootCid := root.(cidlink.Link).Cid
			v := gen.Voucher(r, "VT0")
			var chid datatransfer.ChannelID
			var err error
			ini := src
			if r.Intn(2) == 0 { // push from src, or pull by dst
				chid, err = src.dt.OpenPushDataChannel(ctx, dst.h.ID(), v, rootCid, gen.AllSelector)
			} else {
				ini = dst
				chid, err = dst.dt.OpenPullDataChannel(ctx, src.h.ID(), v, rootCid, gen.AllSelector)
			}
			if err == nil {
				xs = append(xs, xfer{chid, ini})
			}
		}
		var ops atomic.Int64
		seeds := make([]int64, 4)
		for i := range seeds {
			seeds[i] = r.Int63()
		}
		stopEarly := r.Intn(2) == 0
		ok := c.HangCheck("C20", "e2e-stress", 90*time.Second, func() {
			var wg sync.WaitGroup
			for g := 0; g < 4; g++ {
				wg.Add(1)
				go func(seed int64) {
					defer wg.Done()
					rr := rand.New(rand.NewSource(seed))
					for i := 0; i < 12 && len(xs) > 0; i++ {
						x := xs[rr.Intn(len(xs))]
						node := A
						if rr.Intn(2) == 0 {
							node = B
						}
						octx, ocancel := context.WithTimeout(ctx, 3*time.Second)
						switch rr.Intn(6) {
						case 0:
							node.dt.PauseDataTransferChannel(octx, x.chid)
						case 1:
							node.dt.ResumeDataTransferChannel(octx, x.chid)
						case 2:
							if rr.Intn(3) == 0 {
								node.dt.CloseDataTransferChannel(octx, x.chid)
							}
						case 3:
							node.dt.ChannelState(octx, x.chid)
							node.dt.InProgressChannels(octx)
						case 4:
							if rr.Intn(4) == 0 {
								mn.DisconnectPeers(h1.ID(), h2.ID())
							}
						default:
							node.dt.RestartDataTransferChannel(octx, x.chid)
						}
						ocancel()
						ops.Add(1)
						time.Sleep(time.Duration(rr.Intn(30)) * time.Millisecond)
					}
				}(seeds[g])
			}
			wg.Wait()
			if !stopEarly {
				time.Sleep(2 * time.Second)
			}
		})
		done := 0
		if ok {
			for _, x := range xs {
				if v := x.from.view(c, x.chid); v != nil && isTerminal(v.Status) {
					done++
				}
			}
			if c.HangCheck("C20", "e2e-stop", 30*time.Second, func() {
				A.dt.Stop(context.Background())
				B.dt.Stop(context.Background())
			}) {
				if left, dump := vf.ParkedOnLocks(); len(left) > 0 {
					c.Violation("C20", "goroutine-left-on-library-lock "+left[0], "12 s after Manager.Stop returned, library goroutines are still parked on locks: %v\n%s", left, dump)
				}
			}
		}
		c.Count("transfers", len(xs))
		c.Count("terminal_at_stop", done)
		c.Count("disturbances", int(ops.Load()))
		c.Mark("idx=%d", c.Index)
		c.NonTrivial()
		if c.Index < 1 {
			c.Sample(map[string]any{"simultaneous_transfers": len(xs), "disturbing_operations": ops.Load(), "stopped_mid_flight": stopEarly, "terminal_at_stop": done})
		}
		cancel()
		h1.Close()
		h2.Close()
		mn.Close()
	})
}
