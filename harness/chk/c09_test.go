package chk

import (
	"context"
	"errors"
	"fmt"
	"sync/atomic"
	"testing"
	"testing/synctest"
	"time"

	"github.com/ipfs/go-datastore"
	"github.com/ipfs/go-graphsync"
	ipld "github.com/ipld/go-ipld-prime"
	"github.com/ipld/go-ipld-prime/datamodel"
	cidlink "github.com/ipld/go-ipld-prime/linking/cid"
	"github.com/libp2p/go-libp2p/core/peer"

	datatransfer "github.com/filecoin-project/go-data-transfer/v2"
	"github.com/filecoin-project/go-data-transfer/v2/channels"
	dtimpl "github.com/filecoin-project/go-data-transfer/v2/impl"
	"github.com/filecoin-project/go-data-transfer/v2/message"
	gst "github.com/filecoin-project/go-data-transfer/v2/transport/graphsync"
	"github.com/filecoin-project/go-data-transfer/v2/transport/graphsync/testharness"

	"verif/harness/internal/cborx"
	"verif/harness/internal/doubles"
	"verif/harness/internal/gen"
	"verif/harness/internal/vf"
)

// ---- C09: cleanup exactly once per ending, always settles; closing never hangs ----------------

var nonEndedStatuses = []datatransfer.Status{
	datatransfer.Requested, datatransfer.Ongoing, datatransfer.TransferFinished, datatransfer.ResponderCompleted, datatransfer.Finalizing,
	datatransfer.ResponderFinalizing, datatransfer.ResponderFinalizingTransferFinished, datatransfer.Queued, datatransfer.AwaitingAcceptance,
}

// TestC09Chan: every status x ending event x a racing bookkeeping event before/during/after cleanup.
func TestC09Chan(t *testing.T) {
	vf.Run(t, "C09Chan", vf.Opts{Bubble: true, DefaultN: 54}, func(c *vf.Case) {
		r := c.Rng
		status := nonEndedStatuses[c.Index%9]
		ending := (c.Index / 9) % 3  // 0 cancel 1 error 2 complete
		timing := (c.Index / 27) % 3 // racing event 0 before, 1 during, 2 after the cleanup
		rl := allRoles[(c.Index/81)%4]
		peers := gen.Peers(r, 2)
		self, other := peers[0], peers[1]
		chid := datatransfer.ChannelID{Initiator: self, Responder: other, ID: datatransfer.TransferID(1 + r.Intn(1<<30))}
		if !rl.Initiator {
			chid = datatransfer.ChannelID{Initiator: other, Responder: self, ID: chid.ID}
		}
		ds := doubles.NewRecDS()
		ds.Put(bg, datastore.NewKey("/versions/current"), []byte("3"))
		ds.Put(bg, datastore.NewKey("/3/"+chid.String()), cborx.Encode(mkV3(self, chid, rl.Pull, status, r.Intn(2) == 0, r.Intn(2) == 0, nil)))
		env := doubles.NewRecEnv(self)
		sub := &doubles.SubLog{}
		cs, err := channels.New(ds, channels.Notifier(sub.Fn()), env, self)
		if err != nil {
			panic(err)
		}
		cs.Start(bg)
		hold := time.Duration(0)
		if timing == 1 {
			hold = time.Second
		}
		env.SetOnCleanup(func(datatransfer.ChannelID) {
			if hold > 0 {
				time.Sleep(hold) // virtual: keeps the cleanup open so that "during" is reachable
			}
		})
		var bc blockCounter
		bc.q, bc.s, bc.r = 10, 9, 8
		nrace := 1 + r.Intn(3)
		var racers []evOp
		for i := 0; i < nrace; i++ {
			if ending != 2 && timing > 0 && r.Intn(3) == 0 {
				// the local transfer or the responder may finish while a cancelled/failed channel is cleaning
				// up: these late lifecycle signals must not derail the ending either
				racers = append(racers, opByKind(r, &bc, gen.Pick(r, []int{16, 17, 18})))
				continue
			}
			racers = append(racers, noise(c, &bc))
		}
		fireRacers := func() {
			for _, op := range racers {
				op.Do(cs, chid)
			}
		}
		end := func() {
			switch ending {
			case 0:
				cs.Cancel(chid)
			case 1:
				cs.Error(chid, errors.New("boom"))
			case 2:
				cs.Complete(chid)
			}
		}
		want := []datatransfer.Status{datatransfer.Cancelled, datatransfer.Failed, datatransfer.Completed}[ending]
		switch timing {
		case 0:
			fireRacers()
			settle()
			end()
		case 1:
			end()
			settle() // the entry function is now parked inside the environment's CleanupChannel
			fireRacers()
		case 2:
			end()
			time.Sleep(2 * time.Second)
			settle()
			fireRacers()
		}
		time.Sleep(5 * time.Second)
		settle()
		st, gerr := cs.GetByID(bg, chid)
		var final *doubles.StateView
		if gerr == nil {
			final, _ = doubles.ViewOf(st)
		}
		ncl, nun := 0, 0
		for _, e := range env.Calls() {
			switch e.Op {
			case "cleanup":
				if e.Chid == chid {
					ncl++
				}
			case "unprotect":
				if e.Peer == other && e.Tag == chid.String() {
					nun++
				}
			}
		}
		var names []string
		for _, op := range racers {
			names = append(names, op.Name)
		}
		when := []string{"before", "during", "after"}[timing]
		if final == nil || final.Status != want {
			c.Violation("C09", fmt.Sprintf("did-not-settle want=%s", want), "from %s, ending %d with %v %s cleanup: channel is %v, want %s", status, ending, names, when, final, want)
		}
		if ncl != 1 || nun != 1 {
			c.Violation("C09", fmt.Sprintf("cleanup-count cleanup=%d unprotect=%d racing=%s %s", ncl, nun, names[0], when),
				"from %s (%s): one ending (%s) with %v delivered %s the cleanup: transport cleanup ran %d times, un-protect %d times", status, rl, want, names, when, ncl, nun)
		}
		// a terminal status is never reached without that cleanup: the cleanup call precedes the terminal snapshot
		for _, e := range sub.For(chid) {
			if isTerminal(e.View.Status) {
				first := int64(-1)
				for _, ec := range env.Calls() {
					if ec.Op == "cleanup" && ec.Chid == chid {
						first = ec.Ret
						break
					}
				}
				if first < 0 || first > e.Seq {
					c.Violation("C09", "terminal-before-cleanup", "terminal snapshot %s announced before the cleanup had run", e.View.Status)
				}
				break
			}
		}
		c.Count("endings", 1)
		c.Mark("st=%s end=%d when=%s", status, ending, when)
		c.NonTrivial()
		if c.Index < 2 {
			c.Sample(map[string]any{"from_status": status.String(), "ending": want.String(), "racing_events": names, "racing_when": when, "cleanup_calls": ncl, "unprotect_calls": nun})
		}
		cs.Stop(bg)
		settle()
	})
}

// gsMgrFix is a real manager over the REAL graphsync transport over the graphsync double.
type gsMgrFix struct {
	c    *vf.Case
	self peer.ID
	ds   *doubles.RecDS
	net  *doubles.RecNet
	gs   *doubles.FakeGS
	tr   *gst.Transport
	val  *doubles.RecValidator
	sub  *doubles.SubLog
	m    datatransfer.Manager
}

func newGsMgrFix(c *vf.Case, self peer.ID, ds *doubles.RecDS) *gsMgrFix {
	if ds == nil {
		ds = doubles.NewRecDS()
	}
	f := &gsMgrFix{c: c, self: self, ds: ds, net: doubles.NewRecNet(self), gs: doubles.NewFakeGS(), val: doubles.NewRecValidator(), sub: &doubles.SubLog{}}
	f.tr = gst.NewTransport(self, f.gs)
	m, err := dtimpl.NewDataTransfer(ds, f.net, f.tr)
	if err != nil {
		panic(err)
	}
	f.m = m
	for _, t := range regTypes {
		m.RegisterVoucherType(datatransfer.TypeIdentifier(t), f.val)
	}
	m.SubscribeToEvents(f.sub.Fn())
	if err := m.Start(bg); err != nil {
		panic(err)
	}
	synctest.Wait()
	return f
}

func (f *gsMgrFix) view(chid datatransfer.ChannelID) *doubles.StateView {
	st, err := f.m.ChannelState(bg, chid)
	if err != nil || st == nil {
		return nil
	}
	v, p := doubles.ViewOf(st)
	probeC19(f.c, "manager.ChannelState", p)
	return v
}

// lastRequest returns the id of the latest graphsync request the transport issued.
func (f *gsMgrFix) lastRequest() (graphsync.RequestID, bool) {
	calls := f.gs.Calls()
	for i := len(calls) - 1; i >= 0; i-- {
		if calls[i].Op == "request" {
			return calls[i].ID, true
		}
	}
	return graphsync.RequestID{}, false
}

func TestC09Close(t *testing.T) {
	vf.Run(t, "C09Close", vf.Opts{Bubble: true, DefaultN: 48}, func(c *vf.Case) {
		r := c.Rng
		rl := allRoles[c.Index%4]
		gsState := (c.Index / 4) % 7    // 0 no transport channel, 1 tracked never opened, 2 open, 3 cancelled by an earlier close, 4 requester cancelled, 5 completed, 6 open with a non-terminal graphsync error already reported
		closeKind := (c.Index / 28) % 2 // 0 user close, 1 close with error
		sendMode := r.Intn(3)           // 0 ok, 1 fails at once, 2 fails after a delay
		peers := gen.Peers(r, 2)
		self, other := peers[0], peers[1]
		f := newGsMgrFix(c, self, nil)
		useStore := gsState == 1 || gsState == 2 || r.Intn(3) == 0
		if useStore {
			for _, t := range regTypes {
				f.m.RegisterTransportConfigurer(datatransfer.TypeIdentifier(t), func(chid datatransfer.ChannelID, v datatransfer.TypedVoucher) []datatransfer.TransportOption {
					return []datatransfer.TransportOption{gst.UseStore(ipld.LinkSystem{})}
				})
			}
		}
		v := gen.Voucher(r, "VT0")
		var chid datatransfer.ChannelID
		weRequest := (rl.Initiator && rl.Pull) || (!rl.Initiator && !rl.Pull) // we issue the graphsync request
		var inID graphsync.RequestID
		if rl.Initiator {
			var err error
			if rl.Pull {
				chid, err = f.m.OpenPullDataChannel(bg, other, v, dummyCid, gen.AllSelector)
			} else {
				chid, err = f.m.OpenPushDataChannel(bg, other, v, dummyCid, gen.AllSelector)
			}
			if err != nil {
				panic(err)
			}
			settle()
			if !rl.Pull && gsState >= 2 {
				// the responder's graphsync request (carrying its acceptance) arrives
				resp, _ := message.NewResponse(chid.ID, true, false, nil)
				inID = graphsync.NewRequestID()
				f.gs.IncomingRequestHook(other, doubles.Req(inID, dtExt(resp)), &testharness.FakeIncomingRequestHookActions{})
			}
		} else {
			tid := datatransfer.TransferID(1 + r.Intn(1<<30))
			chid = datatransfer.ChannelID{Initiator: other, Responder: self, ID: tid}
			req, _ := message.NewRequest(tid, false, rl.Pull, &v, dummyCid, gen.AllSelector)
			if rl.Pull {
				if gsState >= 2 {
					inID = graphsync.NewRequestID()
					f.gs.IncomingRequestHook(other, doubles.Req(inID, dtExt(req)), &testharness.FakeIncomingRequestHookActions{})
				} else {
					// the request arrives over the network only (no graphsync request yet)
					w, _ := doubles.Reencode(req)
					f.net.Deliver(other, w)
				}
			} else {
				w, _ := doubles.Reencode(req)
				f.net.Deliver(other, w) // accepted push: we open the graphsync request
			}
		}
		settle()
		if f.view(chid) == nil {
			c.Note("channel was not created (role %s gsState %d)", rl, gsState)
			f.m.Stop(bg)
			return
		}
		switch gsState {
		case 3:
			ctx, cancel := context.WithTimeout(bg, 10*time.Second)
			f.tr.CloseChannel(ctx, chid)
			cancel()
		case 4:
			if !weRequest && gsState >= 2 {
				f.gs.RequestorCancelledListener(other, doubles.Req(inID, nil))
				if r.Intn(2) == 0 {
					// ... and somebody still tries to pause / resume the channel whose requester has gone
					ctx, cancel := context.WithTimeout(bg, 10*time.Second)
					if r.Intn(2) == 0 {
						f.tr.PauseChannel(ctx, chid)
					} else {
						f.tr.PauseChannel(ctx, chid)
						f.tr.ResumeChannel(ctx, message.UpdateResponse(chid.ID, false), chid)
					}
					cancel()
					c.Count("pause_after_requester_cancelled", 1)
				}
			}
		case 6:
			if weRequest {
				if id, ok := f.lastRequest(); ok {
					if f.gs.ReportError(id, graphsync.RemoteMissingBlockErr{Link: cidlink.Link{Cid: dummyCid}, Path: datamodel.ParsePath("a/b")}) {
						c.Count("nonterminal_graphsync_errors", 1)
					} else {
						c.Note("ReportError refused for %v", id)
					}
				} else {
					c.Note("gsState 6: no request recorded (%d calls)", f.gs.Len())
				}
			}
		case 5:
			if weRequest {
				if id, ok := f.lastRequest(); ok {
					f.gs.Complete(id, nil)
				}
			} else {
				f.gs.CompletedResponseListener(other, doubles.Req(inID, nil), graphsync.RequestCompletedFull)
			}
		}
		settle()
		if useStore && rl.Initiator && gsState == 2 && r.Intn(2) == 0 {
			// the channel is restarted before it ends: transport options (the per-channel store) are applied
			// again; what was registered must still be released exactly once when the channel ends
			if err := f.m.RestartDataTransferChannel(bg, chid); err != nil {
				c.Note("restart before close: %v", err)
			}
			settle()
			c.Count("restarted_with_store_before_ending", 1)
		}
		before := f.view(chid)
		if before == nil || isTerminal(before.Status) {
			// completed on its own: closing a terminated channel is C02's business
			c.Mark("already-terminal")
			f.m.Stop(bg)
			settle()
			return
		}
		var injected, latency atomic.Int64 // virtual ns the harness itself made the call wait / the call took
		switch sendMode {
		case 1:
			f.net.SetOnSend(func(p peer.ID, m datatransfer.Message) error {
				if m.IsCancel() {
					return errors.New("no route")
				}
				return nil
			})
		case 2:
			f.net.SetOnSend(func(p peer.ID, m datatransfer.Message) error {
				if m.IsCancel() {
					injected.Add(int64(3 * time.Second))
					time.Sleep(3 * time.Second)
					return errors.New("stream reset")
				}
				return nil
			})
		}
		nnet := f.net.Len()
		t0 := time.Now()
		done := make(chan error, 1)
		// the caller's context: background, or cancelled as soon as the call has returned (a handler
		// doing `defer cancel()`); with a slow stream open the cancel message is then still on its way
		ctxMode := r.Intn(2)
		if sendMode == 0 && ctxMode == 1 {
			f.net.SetOnSend(func(p peer.ID, m datatransfer.Message) error {
				if m.IsCancel() {
					injected.Add(int64(500 * time.Millisecond))
					time.Sleep(500 * time.Millisecond) // opening the stream takes a moment
				}
				return nil
			})
		}
		go func() {
			ctx, cancel := context.WithCancel(bg)
			if ctxMode == 0 {
				ctx = bg
			}
			var err error
			if closeKind == 0 {
				err = f.m.CloseDataTransferChannel(ctx, chid)
			} else {
				err = f.m.(closerWithError).CloseDataTransferChannelWithError(ctx, chid, errors.New("monitor gave up"))
			}
			latency.Store(int64(time.Since(t0)))
			cancel()
			done <- err
		}()
		time.Sleep(2 * time.Minute)
		synctest.Wait()
		var cerr error
		returned := false
		select {
		case cerr = <-done:
			returned = true
		default:
		}
		// "returns promptly": on the virtual clock code that does not wait on a timer takes no time at
		// all, so any latency beyond the delays this harness injected into the message send means the
		// call only came back because a library fail-safe timer expired
		if lat, inj := latency.Load(), injected.Load(); returned && lat > inj {
			c.Violation("C09", fmt.Sprintf("close-waited-for-library-timeout role=%s gsstate=%d", rl, gsState), "close (kind %d) of a %s channel in %s with graphsync request state %d took %v of virtual time, %v more than the send delays injected by the harness", closeKind, rl, before.Status, gsState, time.Duration(lat), time.Duration(lat-inj))
		} else if returned {
			c.Count("close_latency_equals_injected_delay", 1)
		}
		if !returned {
			c.Violation("C09", fmt.Sprintf("close-hangs role=%s gsstate=%d", rl, gsState), "close (kind %d) of a %s channel in %s with graphsync request state %d has not returned after 2 virtual minutes", closeKind, rl, before.Status, gsState)
		} else if cerr != nil {
			c.Violation("C09", "close-returned-error", "close returned %v", cerr)
		}
		final := f.view(chid)
		want := datatransfer.Cancelled
		if closeKind == 1 {
			want = datatransfer.Failed
		}
		if returned && (final == nil || final.Status != want) {
			c.Violation("C09", fmt.Sprintf("close-final-status want=%s", want), "after close (kind %d, cancel send mode %d) the channel is %v, want %s", closeKind, sendMode, final, want)
		}
		// the counterparty is told with a cancel message of the right kind
		ncancel, delivered := 0, 0
		for _, s := range f.net.Sends(nnet) {
			if s.Msg.IsCancel() && s.Msg.TransferID() == chid.ID {
				ncancel++
				if s.Err == nil {
					delivered++
				}
				if s.Peer != other {
					c.Violation("C09", "cancel-to-wrong-peer", "cancel message sent to %s", s.Peer)
				}
				if s.Msg.IsRequest() != rl.Initiator {
					c.Violation("C09", "cancel-wrong-kind", "%s sent a cancel %s", rl, map[bool]string{true: "request", false: "response"}[s.Msg.IsRequest()])
				}
			}
		}
		if returned && ncancel != 1 {
			c.Violation("C09", fmt.Sprintf("cancel-message-count %d", ncancel), "close sent %d cancel messages", ncancel)
		}
		if returned && sendMode == 0 && closeKind == 0 && delivered != 1 {
			c.Violation("C09", fmt.Sprintf("cancel-message-not-delivered ctxmode=%d", ctxMode), "the network could deliver the cancel message but %d were delivered (caller context mode %d: 1 = cancelled right after the call returned)", delivered, ctxMode)
		}
		// cleanup exactly once: one un-protect, no transport tracking left, store unregistered once
		nun := 0
		for _, nc := range f.net.Calls() {
			if nc.Op == "unprotect" && nc.Tag == chid.String() {
				nun++
			}
		}
		if returned && nun != 1 {
			c.Violation("C09", fmt.Sprintf("unprotect-count %d sendmode=%d", nun, sendMode), "one ending, peer un-protected %d times (cancel send mode %d)", nun, sendMode)
		}
		if snap, ok := hookTransport(f.tr); ok && returned {
			for _, tc := range snap.tracked {
				if tc == chid {
					c.Violation("C09", "transport-still-tracks-channel", "transport still tracks the channel after it terminated")
				}
			}
			for _, rc := range snap.routes {
				if rc == chid {
					c.Violation("C09", "transport-route-left", "a graphsync request is still routed to the terminated channel")
				}
			}
		}
		nunreg := 0
		for _, gc := range f.gs.Calls() {
			if gc.Op == "unregopt" && gc.Name == "data-transfer-"+chid.String() {
				nunreg++
			}
		}
		if returned && useStore && nunreg > 1 {
			c.Violation("C09", "store-unregistered-twice", "per-channel store unregistered %d times", nunreg)
		}
		for _, o := range f.gs.RegisteredOptions() {
			if o == "data-transfer-"+chid.String() && returned {
				c.Violation("C09", "store-left-registered", "per-channel store still registered after the channel terminated")
			}
		}
		if in, ok := hookInternals(f.m); ok && returned {
			if in.spans != 0 {
				c.Violation("C09", "span-left-open", "%d tracing spans still open after the only channel terminated", in.spans)
			}
			if in.options != 0 {
				c.Violation("C09", "transport-options-left", "transport options still stored after the channel terminated")
			}
		}
		c.Count("closes", 1)
		c.Mark("role=%s gs=%d kind=%d send=%d st=%s", rl, gsState, closeKind, sendMode, before.Status)
		c.NonTrivial()
		if c.Index < 3 {
			c.Sample(map[string]any{"role": rl.String(), "graphsync_request_state": gsState, "close_kind": closeKind, "cancel_send_mode": sendMode, "status_before": before.Status.String(), "returned": returned, "final": fmt.Sprint(final)})
		}
		f.m.Stop(bg)
		for _, gc := range f.gs.Calls() {
			if gc.Op == "request" {
				f.gs.Complete(gc.ID, nil)
			}
		}
		time.Sleep(time.Minute)
	})
}
