package chk

import (
	"bytes"
	"errors"
	"fmt"
	"strings"
	"testing"

	"github.com/ipld/go-ipld-prime/datamodel"

	datatransfer "github.com/filecoin-project/go-data-transfer/v2"
	"github.com/filecoin-project/go-data-transfer/v2/message"
	"github.com/filecoin-project/go-data-transfer/v2/message/types"

	"verif/harness/internal/cborx"
	"verif/harness/internal/doubles"
	"verif/harness/internal/gen"
	"verif/harness/internal/vf"
)

// ---- C04: only validated requests move data ---------------------------------------------------

type valOutcome struct {
	kind string // accept reject error accept+error
	res  datatransfer.ValidationResult
	err  error
}

func genOutcome(c *vf.Case, k int) valOutcome {
	r := c.Rng
	o := valOutcome{}
	switch k % 6 {
	case 0, 4, 5:
		o.kind = "accept"
		o.res.Accepted = true
	case 1:
		o.kind = "reject"
	case 2:
		o.kind = "error"
		o.err = errors.New("validator broke")
	case 3:
		o.kind = "accept+error"
		o.res.Accepted = true
		o.err = errors.New("validator broke after deciding")
	}
	switch r.Intn(4) {
	case 0:
	case 1:
		v := gen.Voucher(r, "RT"+fmt.Sprint(r.Intn(3)))
		o.res.VoucherResult = &v
	case 2:
		o.res.VoucherResult = &datatransfer.TypedVoucher{Type: "RTnil", Voucher: nil} // typed but no node
	case 3:
		v := gen.SimpleVoucher("RTs", "result")
		o.res.VoucherResult = &v
	}
	o.res.ForcePause = r.Intn(3) == 0
	o.res.DataLimit = gen.Pick(r, []uint64{0, 0, 1, 4096, 1 << 62, ^uint64(0)})
	o.res.RequiresFinalization = r.Intn(3) == 0
	return o
}

func (o valOutcome) valid() bool { return o.res.Accepted && o.err == nil }

func tvOfPtr(v *datatransfer.TypedVoucher) doubles.TV {
	if v == nil || v.Voucher == nil {
		if v != nil {
			return doubles.TV{Type: string(v.Type), CBOR: "f6"}
		}
		return doubles.TV{Type: "", CBOR: "f6"}
	}
	return doubles.TVOf(*v)
}

// replyOf extracts the reply a request produced: either returned on the transport path, carried
// by a transport OpenChannel (accepted push), or sent over the network.
func replyOf(f *mgrFix, chid datatransfer.ChannelID, returned datatransfer.Response, nnet, ntp int) (datatransfer.Response, string) {
	if returned != nil {
		return returned, "returned"
	}
	for _, tc := range f.tp.CallsFrom(ntp) {
		if tc.Op == "open" && tc.Chid == chid {
			if rs, ok := tc.Msg.(datatransfer.Response); ok {
				return rs, "transport-open"
			}
		}
	}
	for _, s := range f.net.Sends(nnet) {
		if rs, ok := s.Msg.(datatransfer.Response); ok && rs.TransferID() == chid.ID && s.Peer == chid.Initiator && (rs.IsNew() || rs.IsRestart()) {
			return rs, "network"
		}
	}
	return nil, "none"
}

func wasWritten(f *mgrFix, chid datatransfer.ChannelID) bool {
	suffix := "/" + chid.String()
	for _, w := range f.ds.Log() {
		if strings.HasSuffix(w.Key, suffix) && !w.Del {
			return true
		}
	}
	return false
}

func TestC04New(t *testing.T) {
	vf.Run(t, "C04New", vf.Opts{Bubble: true, DefaultN: 64}, func(c *vf.Case) {
		r := c.Rng
		peers := gen.Peers(r, 3)
		self, other := peers[0], peers[1]
		pull := c.Index%2 == 0
		viaNet := (c.Index/2)%2 == 0 || !pull // push requests always arrive over the network
		shape := (c.Index / 4) % 5            // 0,1 registered type; 2 unregistered; 3 missing voucher; 4 missing selector
		out := genOutcome(c, c.Index/20)
		f := newMgrFix(c, self, nil)
		f.val.SetOutcome(func(kind string, n int, chid datatransfer.ChannelID) (datatransfer.ValidationResult, error) {
			return out.res, out.err
		})
		tid := datatransfer.TransferID(r.Uint64() >> uint(r.Intn(64)))
		chid := datatransfer.ChannelID{Initiator: other, Responder: self, ID: tid}
		v := gen.Voucher(r, gen.Pick(r, regTypes))
		vp := &v
		var sel datamodel.Node = gen.AllSelector
		switch shape {
		case 2:
			v.Type = "NOT-REGISTERED"
		case 3:
			vp = nil
		case 4:
			sel = nil
		}
		req, err := message.NewRequest(tid, false, pull, vp, dummyCid, sel)
		if err != nil {
			panic(err)
		}
		w, err := doubles.Reencode(req)
		if err != nil {
			panic(err)
		}
		if shape == 3 && r.Intn(2) == 0 {
			// the other way a voucher can be missing - only the wire can say it: a registered voucher TYPE
			// with a null voucher (the constructors write an empty type when there is no voucher)
			splain, _ := cborx.Decode(mustHex(doubles.CBOR(gen.AllSelector)))
			wire := cborx.Encode(reqMap(uint64(types.NewMessage), uint64(tid), false, pull, dummyCid, splain, nil, gen.Pick(r, regTypes), nil))
			if m, err := message.FromNet(bytes.NewReader(wire)); err == nil {
				w = m
				c.Count("typed_null_voucher_requests", 1)
			}
		}
		nnet, ntp := f.net.Len(), f.tp.Len()
		var returned datatransfer.Response
		var rerr error
		p, val, stack := vf.Recover(func() {
			if viaNet {
				f.net.Deliver(other, w)
			} else {
				returned, rerr = f.tp.Events().OnRequestReceived(chid, w.(datatransfer.Request))
			}
		})
		if p {
			c.Violation("C04", "panic-on-request "+vf.TopLibFrame(stack), "incoming request crashed the node: %v", val)
		}
		settle()
		consulted := len(f.val.Calls()) > 0
		wantValid := shape <= 1 && out.valid()
		if shape > 1 && consulted {
			c.Violation("C04", fmt.Sprintf("validator-consulted-for-malformed shape=%d", shape), "a validator was consulted for a request with shape %d (unregistered type / missing voucher / missing selector)", shape)
		}
		if shape <= 1 && !consulted {
			c.Violation("C04", "validator-not-consulted", "no validator call for a well-formed request with a registered voucher type")
		}
		reply, how := replyOf(f, chid, returned, nnet, ntp)
		st := f.view(chid)
		opened := doubles.CountOp(f.tp.CallsFrom(ntp), "open", chid)
		protects := 0
		for _, nc := range f.net.Calls()[nnet:] {
			if nc.Op == "protect" && nc.Peer == other {
				protects++
			}
		}
		if !wantValid {
			if st != nil || wasWritten(f, chid) {
				c.Violation("C04", fmt.Sprintf("channel-created-without-validation %s shape=%d", out.kind, shape), "request not validly accepted (%s, shape %d) but channel state exists: %v", out.kind, shape, st)
			}
			if opened > 0 {
				c.Violation("C04", "transport-opened-without-validation "+out.kind, "transport channel opened for a request that was not validly accepted (%s)", out.kind)
			}
			if protects > 0 {
				c.Violation("C04", "protected-without-validation "+out.kind, "connection protected for a request that was not validly accepted (%s)", out.kind)
			}
			if reply == nil {
				c.Violation("C04", "no-reply-to-refused-request "+out.kind, "no reply (via %s) to a refused request", how)
			} else if reply.Accepted() {
				c.Violation("C04", "accepted-reply-without-validation "+out.kind, "reply says Accepted for a request that was not validly accepted (%s, shape %d)", out.kind, shape)
			}
			if !viaNet && rerr == nil {
				c.Violation("C04", "transport-not-told-to-stop "+out.kind, "refused request on the transport path returned a nil error (%s)", out.kind)
			}
			c.Count("refused", 1)
		} else {
			if st == nil {
				c.Violation("C04", "accepted-request-without-channel", "validator accepted but no channel exists")
			} else {
				if st.DataLimit != out.res.DataLimit {
					c.Violation("C04", "datalimit-not-recorded", "channel DataLimit=%d, validator said %d", st.DataLimit, out.res.DataLimit)
				}
				if st.RequiresFinalization != out.res.RequiresFinalization {
					c.Violation("C04", "finalization-not-recorded", "channel RequiresFinalization=%v, validator said %v", st.RequiresFinalization, out.res.RequiresFinalization)
				}
				if st.ResponderPaused != out.res.ForcePause {
					c.Violation("C04", "pause-decision-not-recorded", "channel ResponderPaused=%v, validator ForcePause=%v", st.ResponderPaused, out.res.ForcePause)
				}
				if out.res.VoucherResult != nil && out.res.VoucherResult.Voucher != nil {
					if len(st.Results) != 1 || st.Results[0] != doubles.TVOf(*out.res.VoucherResult) {
						c.Violation("C04", "voucher-result-not-recorded", "channel results %v, validator's %v", st.Results, doubles.TVOf(*out.res.VoucherResult))
					}
				}
			}
			if reply == nil {
				c.Violation("C04", "no-reply-to-accepted-request", "no reply found for an accepted request")
			} else {
				if !reply.Accepted() {
					c.Violation("C04", "accepted-request-answered-not-accepted", "validator accepted, reply (via %s) says not accepted", how)
				}
				if reply.IsPaused() != out.res.ForcePause {
					c.Violation("C04", "reply-pause-bit", "reply paused=%v, validator's pause decision=%v", reply.IsPaused(), out.res.ForcePause)
				}
				n, _ := reply.VoucherResult()
				got := doubles.TV{Type: string(reply.VoucherResultType()), CBOR: doubles.CBOR(n)}
				if want := tvOfPtr(out.res.VoucherResult); got != want {
					c.Violation("C04", "reply-voucher-result", "reply carries %v, validator's result is %v", got, want)
				}
			}
			if !pull && opened != 1 {
				c.Violation("C04", fmt.Sprintf("push-transport-open-count %d", opened), "accepted push request: transport opened %d times", opened)
			}
			if pull && opened != 0 {
				c.Violation("C04", "pull-responder-opened-transport", "accepted pull request made the responder open a transport request")
			}
			if protects != 1 {
				c.Violation("C04", fmt.Sprintf("protect-count %d", protects), "accepted request: Protect called %d times", protects)
			}
			if !viaNet {
				want := error(nil)
				if out.res.ForcePause {
					want = datatransfer.ErrPause
				}
				if rerr != want {
					c.Violation("C04", "transport-return-code", "accepted request on the transport path returned %v, want %v", rerr, want)
				}
			}
			c.Count("accepted", 1)
		}
		f.checkProbes()
		c.Mark("pull=%v net=%v shape=%d out=%s fp=%v fin=%v lim=%v vr=%v", pull, viaNet, shape, out.kind, out.res.ForcePause, out.res.RequiresFinalization, out.res.DataLimit != 0, out.res.VoucherResult != nil)
		c.NonTrivial()
		if c.Index < 3 {
			c.Sample(map[string]any{"pull": pull, "via_network": viaNet, "shape": shape, "validator": out.kind, "validation_result": fmt.Sprintf("%+v", out.res), "reply_via": how, "channel": fmt.Sprint(st)})
		}
		f.stop()
	})
}

func TestC04Restart(t *testing.T) {
	vf.Run(t, "C04Restart", vf.Opts{Bubble: true, DefaultN: 48}, func(c *vf.Case) {
		r := c.Rng
		peers := gen.Peers(r, 3)
		self, other := peers[0], peers[1]
		pull := c.Index%2 == 0
		viaNet := (c.Index/2)%2 == 0 || !pull // push (restart) requests always arrive over the network
		mode := (c.Index / 4) % 4             // 0 restart request, 1 UpdateValidationStatus, 2 restart after process restart with the type not registered, 3 validation update for an unknown channel
		out := genOutcome(c, c.Index/12)
		f := newMgrFix(c, self, nil)
		// the terms the channel was first accepted under: none, or a data limit and a finalization
		// requirement - a later re-validation replaces them with whatever IT decides (also with "none")
		if r.Intn(2) == 0 {
			f.val.SetOutcome(func(kind string, n int, ch datatransfer.ChannelID) (datatransfer.ValidationResult, error) {
				return datatransfer.ValidationResult{Accepted: true, DataLimit: uint64(500 + r.Intn(5000)), RequiresFinalization: r.Intn(2) == 0}, nil
			})
			c.Count("first_accepted_with_terms", 1)
		}
		v := gen.Voucher(r, gen.Pick(r, regTypes))
		tid := datatransfer.TransferID(1 + r.Intn(1<<30))
		chid := f.mkResponder(pull, other, tid, v)
		if f.view(chid) == nil {
			panic("responder channel not created")
		}
		if r.Intn(2) == 0 {
			f.tp.Events().OnTransferInitiated(chid)
			settle()
		}
		// in half of the cases a later voucher of ANOTHER registered type has been exchanged meanwhile
		// (accepted): the restart must still be decided by the validator of the request's voucher type
		laterType := ""
		if r.Intn(2) == 0 {
			for _, t := range regTypes {
				if t != string(v.Type) {
					laterType = t
				}
			}
			lv := gen.Voucher(r, laterType)
			vr, err := message.VoucherRequest(tid, &lv)
			if err == nil {
				w, _ := doubles.Reencode(vr)
				f.net.Deliver(other, w)
				settle()
				c.Count("later_voucher_of_other_type", 1)
			}
		}
		if mode == 2 {
			f = f.reopen(withoutTypes())
		}
		if f.val != nil {
			f.val.SetOutcome(func(kind string, n int, ch datatransfer.ChannelID) (datatransfer.ValidationResult, error) {
				return out.res, out.err
			})
		}
		if mode == 3 {
			// a validation update for a channel that does not exist: an error, never a crash, nothing created
			ghost := datatransfer.ChannelID{Initiator: other, Responder: self, ID: tid + 1}
			var err error
			p, val, stack := vf.Recover(func() { err = f.m.UpdateValidationStatus(bg, ghost, out.res) })
			settle()
			if p {
				c.Violation("C04", "panic-on-revalidation "+vf.TopLibFrame(stack), "UpdateValidationStatus for an unknown channel crashed the node: %v", val)
			} else if err == nil {
				c.Violation("C04", "revalidation-of-unknown-channel-ok", "UpdateValidationStatus for an unknown channel returned nil")
			}
			if f.view(ghost) != nil || wasWritten(f, ghost) {
				c.Violation("C04", "revalidation-created-channel", "UpdateValidationStatus for an unknown channel created channel state")
			}
			c.Count("unknown_channel_updates", 1)
			c.Mark("mode=3 out=%s", out.kind)
			c.NonTrivial()
			f.stop()
			return
		}
		before := f.view(chid)
		nnet, ntp := f.net.Len(), f.tp.Len()
		nval := 0
		if f.val != nil {
			nval = len(f.val.Calls())
		}
		var returned datatransfer.Response
		var rerr, apiErr error
		p, val, stack := vf.Recover(func() {
			switch mode {
			case 0, 2:
				req, _ := message.NewRequest(tid, true, pull, &v, dummyCid, gen.AllSelector)
				w, _ := doubles.Reencode(req)
				if viaNet {
					f.net.Deliver(other, w)
				} else {
					returned, rerr = f.tp.Events().OnRequestReceived(chid, w.(datatransfer.Request))
				}
			case 1:
				apiErr = f.m.UpdateValidationStatus(bg, chid, out.res)
			}
		})
		if p {
			c.Violation("C04", "panic-on-revalidation "+vf.TopLibFrame(stack), "re-validation (mode %d) crashed the node: %v", mode, val)
		}
		settle()
		after := f.view(chid)
		closes := doubles.CountOp(f.tp.CallsFrom(ntp), "close", chid)
		opens := doubles.CountOp(f.tp.CallsFrom(ntp), "open", chid)
		var reply datatransfer.Response
		how := ""
		if mode == 1 {
			for _, s := range f.net.Sends(nnet) {
				if rs, ok := s.Msg.(datatransfer.Response); ok && rs.TransferID() == tid {
					reply, how = rs, "network"
				}
			}
			for _, tc := range f.tp.CallsFrom(ntp) {
				if rs, ok := tc.Msg.(datatransfer.Response); ok && tc.Op == "resume" {
					reply, how = rs, "transport-resume"
				}
			}
		} else {
			reply, how = replyOf(f, chid, returned, nnet, ntp)
		}
		switch {
		case mode == 2:
			// the voucher type has no validator (yet): refused, no crash, nothing opened
			if reply == nil || reply.Accepted() {
				c.Violation("C04", "restart-accepted-without-validator", "restart request for a channel whose voucher type is not registered: reply %v", reply)
			}
			if opens > 0 {
				c.Violation("C04", "restart-opened-transport-without-validator", "transport re-opened although no validator could be consulted")
			}
			c.Count("restart_unregistered", 1)
		case mode == 1 && out.err != nil:
			// UpdateValidationStatus takes a result only; the error part does not apply
		default:
			accepted := out.res.Accepted && (out.err == nil || mode == 1)
			if mode == 0 {
				if got := len(f.val.Calls()) - nval; got != 1 {
					c.Violation("C04", fmt.Sprintf("restart-validator-calls %d", got), "restart request consulted the validator %d times", got)
				} else if vc := f.val.Calls()[nval]; vc.RegisteredFor != string(v.Type) {
					c.Violation("C04", "restart-consulted-validator-of-other-type", "restart request with a %s voucher was decided by the validator registered for %s (a %q voucher had been exchanged later)", v.Type, vc.RegisteredFor, laterType)
				}
			}
			if !accepted {
				if reply != nil && reply.Accepted() {
					c.Violation("C04", "rejected-revalidation-answered-accepted "+out.kind, "re-validation %s (mode %d) but the reply says Accepted", out.kind, mode)
				}
				if reply == nil {
					c.Violation("C04", "rejected-revalidation-no-reply "+out.kind, "re-validation %s (mode %d): no reply was sent", out.kind, mode)
				}
				// on the transport path the error returned to the transport makes it terminate the request
				if closes == 0 && !(mode != 1 && !viaNet && rerr != nil && rerr != datatransfer.ErrPause) {
					c.Violation("C04", "rejected-revalidation-transport-not-closed "+out.kind, "re-validation %s (mode %d, channel was %s): transport channel not closed", out.kind, mode, before.Status)
				}
				if opens > 0 {
					c.Violation("C04", "rejected-revalidation-opened-transport "+out.kind, "transport re-opened after a failed re-validation")
				}
				if out.err == nil { // a rejection (not a validator error) must fail the channel with a rejection
					if after == nil || (after.Status != datatransfer.Failed && after.Status != datatransfer.Failing) {
						c.Violation("C04", "rejected-revalidation-channel-not-failed", "rejected re-validation (mode %d): channel is %v", mode, after)
					} else if after.Message != datatransfer.ErrRejected.Error() {
						c.Violation("C04", "rejected-revalidation-wrong-message", "channel failed with %q, want %q", after.Message, datatransfer.ErrRejected.Error())
					}
				}
				c.Count("revalidation_refused", 1)
			} else {
				if reply == nil || !reply.Accepted() {
					c.Violation("C04", "accepted-revalidation-answered-not-accepted", "re-validation accepted (mode %d) but reply is %v", mode, reply)
				} else {
					n, _ := reply.VoucherResult()
					got := doubles.TV{Type: string(reply.VoucherResultType()), CBOR: doubles.CBOR(n)}
					if want := tvOfPtr(out.res.VoucherResult); got != want {
						c.Violation("C04", "revalidation-reply-voucher-result", "reply carries %v, validator's result is %v", got, want)
					}
					// pause decision: forced, or limit already reached (no progress here), or finalization pending
					wantPaused := out.res.ForcePause
					if reply.IsPaused() != wantPaused {
						c.Violation("C04", "revalidation-reply-pause-bit", "reply paused=%v, pause decision=%v", reply.IsPaused(), wantPaused)
					}
				}
				if after == nil || isTerminal(after.Status) || isCleanup(after.Status) {
					c.Violation("C04", "accepted-revalidation-ended-channel", "accepted re-validation but channel is %v", after)
				} else {
					if after.DataLimit != out.res.DataLimit || after.RequiresFinalization != out.res.RequiresFinalization {
						c.Violation("C04", "revalidation-limits-not-recorded", "channel limit/finalization %d/%v, result %d/%v", after.DataLimit, after.RequiresFinalization, out.res.DataLimit, out.res.RequiresFinalization)
					}
					if after.ResponderPaused != out.res.ForcePause {
						c.Violation("C04", "revalidation-pause-not-recorded", "channel ResponderPaused=%v, ForcePause=%v", after.ResponderPaused, out.res.ForcePause)
					}
				}
				if mode == 0 && !pull && opens != 1 {
					c.Violation("C04", fmt.Sprintf("restart-push-open-count %d", opens), "accepted push restart: transport opened %d times", opens)
				}
				c.Count("revalidation_accepted", 1)
			}
		}
		_ = apiErr
		_ = rerr
		f.checkProbes()
		c.Mark("pull=%v net=%v mode=%d out=%s st=%s", pull, viaNet, mode, out.kind, before.Status)
		c.NonTrivial()
		if c.Index < 3 {
			c.Sample(map[string]any{"pull": pull, "via_network": viaNet, "mode": mode, "validator": out.kind, "result": fmt.Sprintf("%+v", out.res), "reply_via": how, "before": before.String(), "after": fmt.Sprint(after)})
		}
		f.stop()
	})
}
