package chk

import (
	"errors"
	"fmt"
	"strings"
	"sync"
	"sync/atomic"
	"testing"

	datatransfer "github.com/filecoin-project/go-data-transfer/v2"

	"verif/harness/internal/doubles"
	"verif/harness/internal/gen"
	"verif/harness/internal/vf"
)

// ---- C08: data limits stop the transfer at the limit until it is re-validated ----------------

// limitModel is the running-sum reference: progress of the limited direction and the limit.
type limitModel struct {
	limit, progress uint64
}

// report returns whether a unique, advancing block of the given size must give the pause signal.
func (m *limitModel) report(size uint64) bool {
	m.progress += size
	return m.limit != 0 && m.progress >= m.limit
}

func countEv(evs []doubles.SEvent, code datatransfer.EventCode) int {
	n := 0
	for _, e := range evs {
		if e.Code == code {
			n++
		}
	}
	return n
}

// TestC08Chan: channels API, responder channels, PRNG sizes x limit schedules x reopen points.
func TestC08Chan(t *testing.T) {
	vf.Run(t, "C08Chan", vf.Opts{Bubble: true, DefaultN: 30}, func(c *vf.Case) {
		r := c.Rng
		peers := gen.Peers(r, 2)
		rl := role{Initiator: false, Pull: c.Index%2 == 0}
		f := newChanFix(c, nil, peers[0])
		chid, _ := f.create(rl, peers[1], datatransfer.TransferID(r.Uint64()), dummyCid, gen.SimpleVoucher("VT0", "v"))
		f.toOngoing(chid, rl)
		m := &limitModel{}
		setLimit := func(l uint64) {
			f.cs.SetDataLimit(chid, l)
			m.limit = l
			settle()
		}
		zero := c.Index%5 == 4
		if !zero {
			setLimit(uint64(1 + r.Intn(20000)))
		} else if r.Intn(2) == 0 {
			setLimit(0)
		}
		lim := func(p int64, size uint64, unique bool) error { // report in the limited direction
			if rl.Pull {
				return f.cs.DataQueued(chid, dummyCid, size, p, unique)
			}
			return f.cs.DataReceived(chid, dummyCid, size, p, unique)
		}
		// reports in the other direction that really occurs on this side must not count: a pull
		// responder is the data sender, it also sees "sent" reports; a push responder only receives
		// (the progress cache is per channel, not per direction, so directions that cannot occur on
		// a side are not generated - see DESIGN corrections log)
		other := func(p int64, size uint64) {
			if rl.Pull {
				f.cs.DataSent(chid, dummyCid, size, p, true)
			}
		}
		n := 5 + r.Intn(40)
		pauses, reopens, raises := 0, 0, 0
		var trace []string
		pos := int64(0)
		for i := 0; i < n; i++ {
			switch x := r.Intn(12); {
			case x == 0: // reopen: limit and progress must survive
				f = f.reopen()
				reopens++
				trace = append(trace, "reopen")
				continue
			case x == 1: // noise in the other directions
				other(pos+1, uint64(1+r.Intn(5000)))
				settle()
				continue
			case x == 2 && pos > 0: // replay / non-unique: no progress, no pause decision change
				err := lim(1+int64(r.Intn(int(pos))), uint64(1+r.Intn(5000)), r.Intn(2) == 0)
				settle()
				if errors.Is(err, datatransfer.ErrPause) {
					c.Violation("C08", "pause-on-replayed-block", "a replayed block returned the pause signal")
				}
				continue
			}
			pos++
			size := uint64(1 + r.Intn(5000))
			// hit the boundary exactly now and then
			if m.limit > m.progress && r.Intn(4) == 0 {
				size = m.limit - m.progress
				if r.Intn(2) == 0 && size > 1 {
					size-- // one byte short
				}
			}
			nb := f.sub.Len()
			err := lim(pos, size, true)
			settle()
			want := m.report(size)
			got := errors.Is(err, datatransfer.ErrPause)
			trace = append(trace, fmt.Sprintf("blk%d size=%d progress=%d limit=%d pause=%v", pos, size, m.progress, m.limit, got))
			if got != want {
				sig := "pause-missing-at-limit"
				if got {
					sig = "pause-below-limit"
				}
				if m.limit == 0 {
					sig = "pause-with-limit-zero"
				}
				c.Violation("C08", sig, "role %s: block %d (size %d) brings the limited total to %d with limit %d: pause signal=%v, want %v (reopens so far %d, raises %d)", rl, pos, size, m.progress, m.limit, got, want, reopens, raises)
			}
			if err != nil && !got {
				c.Violation("C08", "report-error", "block report failed: %v", err)
			}
			evs := f.sub.Events()[nb:]
			if n := countEv(evs, datatransfer.DataLimitExceeded); (n == 1) != got {
				c.Violation("C08", fmt.Sprintf("limit-exceeded-event pause=%v n=%d", got, n), "pause signal=%v but %d DataLimitExceeded events", got, n)
			}
			v := f.view(chid)
			if got {
				pauses++
				if !v.ResponderPaused {
					c.Violation("C08", "responder-not-marked-paused", "pause signalled but ResponderPaused()==false")
				}
				// re-validation: a new limit chosen around the progress made so far
				var nl uint64
				switch r.Intn(5) {
				case 0:
					nl = 0
				case 1:
					nl = m.progress
				case 2:
					nl = m.progress + 1
				case 3:
					nl = m.progress - 1
					if nl == 0 {
						nl = 1
					}
				default:
					nl = m.progress + uint64(1+r.Intn(10000))
				}
				setLimit(nl)
				raises++
				if nl == 0 || nl > m.progress {
					f.cs.ResumeResponder(chid)
					settle()
				}
			}
			if v.DataLimit != m.limit && !got {
				c.Violation("C08", "limit-forgotten", "channel DataLimit=%d, model %d (reopens %d)", v.DataLimit, m.limit, reopens)
			}
			var tot uint64
			if rl.Pull {
				tot = v.Queued
			} else {
				tot = v.Received
			}
			if tot != m.progress {
				c.Violation("C08", "progress-mismatch", "limited total %d, model %d", tot, m.progress)
			}
		}
		c.Count("blocks", int(pos))
		c.Count("pauses", pauses)
		c.Count("reopens", reopens)
		c.Count("limit_changes", raises)
		if zero {
			c.Count("zero_limit_cases", 1)
		}
		c.Mark("role=%s zero=%v pauses=%d reopen=%v raises=%d", rl, zero, min(pauses, 4), reopens > 0, min(raises, 4))
		c.NonTrivial()
		if c.Index < 2 {
			c.Sample(map[string]any{"role": rl.String(), "trace": trace})
		}
		f.stop()
	})
}

// TestC08Mgr: real manager (responder) over doubles: pause notification, re-validation, restart.
func TestC08Mgr(t *testing.T) {
	vf.Run(t, "C08Mgr", vf.Opts{Bubble: true, DefaultN: 30}, func(c *vf.Case) {
		r := c.Rng
		peers := gen.Peers(r, 3)
		self, other := peers[0], peers[1]
		pull := c.Index%2 == 0
		f := newMgrFix(c, self, nil)
		L := uint64(1000 + r.Intn(20000))
		if c.Index%7 == 6 {
			L = 0
		}
		f.val.SetOutcome(func(kind string, n int, ch datatransfer.ChannelID) (datatransfer.ValidationResult, error) {
			return datatransfer.ValidationResult{Accepted: true, DataLimit: L}, nil
		})
		v := gen.Voucher(r, "VT0")
		tid := datatransfer.TransferID(1 + r.Intn(1<<30))
		chid := f.mkResponder(pull, other, tid, v)
		if f.view(chid) == nil {
			panic("no channel")
		}
		f.tp.Events().OnTransferInitiated(chid)
		settle()
		m := &limitModel{limit: L}
		pos := int64(0)
		report := func(size uint64) (datatransfer.Message, error) {
			pos++
			if pull {
				return f.tp.Events().OnDataQueued(chid, dummyLink, size, pos, true)
			}
			return nil, f.tp.Events().OnDataReceived(chid, dummyLink, size, pos, true)
		}
		rounds := 1 + r.Intn(4)
		reopened := false
		for round := 0; round < rounds; round++ {
			// transfer until the pause signal (the transport double obeys it)
			paused := false
			for i := 0; i < 60 && !paused; i++ {
				size := uint64(1 + r.Intn(3000))
				nnet, ntp := f.net.Len(), f.tp.Len()
				nev := f.sub.Len()
				msg, err := report(size)
				settle()
				want := m.report(size)
				got := errors.Is(err, datatransfer.ErrPause)
				if got != want {
					c.Violation("C08", fmt.Sprintf("manager-pause-mismatch got=%v reopened=%v", got, reopened), "pull=%v block %d: limited total %d limit %d: pause=%v want %v (reopened=%v)", pull, pos, m.progress, m.limit, got, want, reopened)
				}
				if got {
					paused = true
					// the initiator is told
					told := false
					if pull {
						if msg != nil && msg.IsPaused() && msg.IsUpdate() && !msg.IsRequest() && msg.TransferID() == tid {
							told = true
						}
					} else {
						for _, s := range f.net.Sends(nnet) {
							if rs, ok := s.Msg.(datatransfer.Response); ok && rs.IsUpdate() && rs.IsPaused() && rs.TransferID() == tid {
								if s.Peer != other {
									c.Violation("C08", "pause-notice-to-wrong-peer", "pause notification sent to %s, the initiator is %s", s.Peer, other)
								}
								told = true
							}
						}
					}
					if !told {
						c.Violation("C08", "initiator-not-told", "pull=%v: pause signalled but the initiator was not notified", pull)
					}
					if countEv(f.sub.Events()[nev:], datatransfer.DataLimitExceeded) != 1 {
						c.Violation("C08", "limit-exceeded-event-missing", "pause signalled without exactly one DataLimitExceeded event")
					}
					if vv := f.view(chid); vv == nil || !vv.ResponderPaused {
						c.Violation("C08", "responder-not-marked-paused", "pause signalled but ResponderPaused()==false")
					}
					if n := doubles.CountOp(f.tp.CallsFrom(ntp), "resume", chid); n > 0 {
						c.Violation("C08", "resumed-without-revalidation", "library resumed the transport right after the pause")
					}
					c.Count("pauses", 1)
				} else if msg != nil || err != nil {
					c.Violation("C08", "unexpected-report-result", "block below the limit returned msg=%v err=%v", msg, err)
				}
			}
			if !paused {
				if m.limit != 0 {
					c.Violation("C08", "never-paused", "60 blocks with limit %d never produced a pause (progress %d)", m.limit, m.progress)
				}
				c.Count("zero_limit_rounds", 1)
				break
			}
			// while paused, nothing resumes by itself; optionally the process restarts
			if r.Intn(3) == 0 {
				f = f.reopen()
				reopened = true
				f.val.SetOutcome(func(kind string, n int, ch datatransfer.ChannelID) (datatransfer.ValidationResult, error) {
					return datatransfer.ValidationResult{Accepted: true, DataLimit: m.limit}, nil
				})
				c.Count("reopens", 1)
			}
			// re-validation around the boundary
			var nl uint64
			switch k := r.Intn(6); k {
			case 0:
				nl = 0
			case 1:
				nl = m.progress
			case 2:
				nl = m.progress + 1
			case 3:
				nl = m.progress - 1
			case 4:
				nl = 0
				// a rejecting update
				ntp, nnet := f.tp.Len(), f.net.Len()
				err := f.m.UpdateValidationStatus(bg, chid, datatransfer.ValidationResult{Accepted: false})
				settle()
				vv := f.view(chid)
				if vv == nil || (vv.Status != datatransfer.Failed && vv.Status != datatransfer.Failing) {
					c.Violation("C08", "rejecting-update-channel-not-failed", "rejecting update (err %v): channel is %v", err, vv)
				}
				if doubles.CountOp(f.tp.CallsFrom(ntp), "close", chid) == 0 {
					c.Violation("C08", "rejecting-update-transport-not-closed", "rejecting update: transport not closed")
				}
				if doubles.CountOp(f.tp.CallsFrom(ntp), "resume", chid) > 0 {
					c.Violation("C08", "rejecting-update-resumed", "rejecting update resumed the transport")
				}
				_ = nnet
				c.Count("rejecting_updates", 1)
				round = rounds
				continue
			default:
				nl = m.progress + uint64(1+r.Intn(8000))
			}
			ntp, nnet := f.tp.Len(), f.net.Len()
			err := f.m.UpdateValidationStatus(bg, chid, datatransfer.ValidationResult{Accepted: true, DataLimit: nl})
			settle()
			m.limit = nl
			shouldResume := nl == 0 || nl > m.progress
			resumes := doubles.CountOp(f.tp.CallsFrom(ntp), "resume", chid)
			vv := f.view(chid)
			if shouldResume {
				if resumes != 1 {
					c.Violation("C08", fmt.Sprintf("accepting-update-no-resume resumes=%d reopened=%v", resumes, reopened), "new limit %d > progress %d (or 0) but transport resumed %d times (err %v)", nl, m.progress, resumes, err)
				}
				if vv == nil || vv.ResponderPaused {
					c.Violation("C08", "accepting-update-still-paused", "new limit %d admits progress %d but the responder is still marked paused", nl, m.progress)
				}
				c.Count("resuming_updates", 1)
			} else {
				if resumes != 0 {
					c.Violation("C08", fmt.Sprintf("insufficient-limit-resumed reopened=%v", reopened), "new limit %d <= progress %d but the transport was resumed", nl, m.progress)
				}
				if vv == nil || !vv.ResponderPaused {
					c.Violation("C08", "insufficient-limit-unpaused", "new limit %d <= progress %d but the responder is no longer marked paused", nl, m.progress)
				}
				told := false
				for _, s := range f.net.Sends(nnet) {
					if rs, ok := s.Msg.(datatransfer.Response); ok && rs.TransferID() == tid && rs.IsPaused() && s.Peer == other {
						told = true
					}
				}
				if !told {
					c.Violation("C08", "insufficient-limit-not-announced", "update leaves the channel paused but the initiator was not told so")
				}
				c.Count("non_resuming_updates", 1)
				// a sufficient limit afterwards
				nl2 := m.progress + uint64(1+r.Intn(5000))
				ntp = f.tp.Len()
				f.m.UpdateValidationStatus(bg, chid, datatransfer.ValidationResult{Accepted: true, DataLimit: nl2})
				settle()
				m.limit = nl2
				if doubles.CountOp(f.tp.CallsFrom(ntp), "resume", chid) != 1 {
					c.Violation("C08", "accepting-update-no-resume second", "second update with limit %d > progress %d did not resume", nl2, m.progress)
				}
			}
			if vv != nil && vv.DataLimit != nl {
				c.Violation("C08", "limit-not-recorded", "channel DataLimit %d after update to %d", vv.DataLimit, nl)
			}
		}
		f.checkProbes()
		c.Mark("pull=%v L0=%v rounds=%d reopened=%v", pull, L == 0, rounds, reopened)
		c.NonTrivial()
		if c.Index < 2 {
			c.Sample(map[string]any{"pull": pull, "initial_limit": L, "rounds": rounds, "blocks": pos, "final_progress": m.progress, "reopened": reopened})
		}
		f.stop()
	})
}

// TestC08Race: the first block report of a channel in a process lifetime (its limit and progress are
// not cached yet) overlaps an accepting validation update that changes the data limit. The report's
// read of the stored state is slow (the datastore double holds it while the update is under way).
// Afterwards the channel must obey the NEW limit: no pause below it (none at all for limit zero), a
// pause exactly when it is reached.
func TestC08Race(t *testing.T) {
	vf.Run(t, "C08Race", vf.Opts{Bubble: true, DefaultN: 16}, func(c *vf.Case) {
		r := c.Rng
		peers := gen.Peers(r, 2)
		self, other := peers[0], peers[1]
		pull := c.Index%2 == 0
		reopen := (c.Index/2)%2 == 1 // the first report of a NEW lifetime (cold caches) instead of the very first one
		L1 := uint64(1000)
		L2 := []uint64{5000, 0, 1500, 100000}[(c.Index/4)%4]
		f := newMgrFix(c, self, nil)
		f.val.SetOutcome(func(kind string, n int, ch datatransfer.ChannelID) (datatransfer.ValidationResult, error) {
			return datatransfer.ValidationResult{Accepted: true, DataLimit: L1}, nil
		})
		v := gen.Voucher(r, "VT0")
		tid := datatransfer.TransferID(1 + r.Intn(1<<30))
		chid := f.mkResponder(pull, other, tid, v)
		if f.view(chid) == nil {
			panic("no channel")
		}
		f.tp.Events().OnTransferInitiated(chid)
		settle()
		pos := int64(0)
		report := func(size uint64) error {
			pos++
			if pull {
				_, err := f.tp.Events().OnDataQueued(chid, dummyLink, size, pos, true)
				return err
			}
			return f.tp.Events().OnDataReceived(chid, dummyLink, size, pos, true)
		}
		progress := uint64(0)
		if reopen {
			if err := report(100); err != nil {
				c.Note("warm-up report: %v", err)
			}
			progress += 100
			settle()
			f = f.reopen()
			f.val.SetOutcome(func(kind string, n int, ch datatransfer.ChannelID) (datatransfer.ValidationResult, error) {
				return datatransfer.ValidationResult{Accepted: true, DataLimit: L1}, nil
			})
		}
		var armed, reading, updated atomic.Bool
		key := ""
		for _, w := range f.ds.Log() {
			if strings.HasSuffix(w.Key, chid.String()) {
				key = w.Key
			}
		}
		f.ds.SetHook(func(op, k string) error {
			if op == "get" && k == key && armed.Load() && reading.CompareAndSwap(false, true) {
				// the read has been carried out by the store; its answer travels slowly
				for i := 0; i < 4000 && !updated.Load(); i++ {
					doubles.Yield(1)
				}
			}
			return nil
		})
		var wg sync.WaitGroup
		wg.Add(2)
		var rerr, uerr error
		armed.Store(true)
		go func() { defer wg.Done(); rerr = report(400) }()
		go func() {
			defer wg.Done()
			for i := 0; i < 4000 && !reading.Load(); i++ {
				doubles.Yield(1)
			}
			uerr = f.m.UpdateValidationStatus(bg, chid, datatransfer.ValidationResult{Accepted: true, DataLimit: L2})
			updated.Store(true)
		}()
		wg.Wait()
		armed.Store(false)
		f.ds.SetHook(nil)
		settle()
		progress += 400
		if reading.Load() {
			c.Count("report_read_overlapped_by_update", 1)
		}
		if rerr != nil || uerr != nil {
			c.Note("overlapping report: %v, update: %v", rerr, uerr)
		}
		if vv := f.view(chid); vv == nil || vv.DataLimit != L2 {
			c.Violation("C08", "limit-not-recorded", "accepting update to limit %d, the channel records %v", L2, vv)
		}
		// from here on the new limit rules
		for i := 0; i < 40; i++ {
			size := uint64(100 + r.Intn(600))
			err := report(size)
			settle()
			progress += size
			want := L2 != 0 && progress >= L2
			got := errors.Is(err, datatransfer.ErrPause)
			if got != want {
				c.Violation("C08", fmt.Sprintf("pause-against-stale-limit got=%v reopened=%v", got, reopen), "pull=%v: limit changed %d -> %d while the first report was being served; block taking the total to %d answered pause=%v, want %v", pull, L1, L2, progress, got, want)
				break
			}
			if got {
				c.Count("paused_at_new_limit", 1)
				break
			}
		}
		c.Mark("pull=%v reopen=%v l2=%d", pull, reopen, L2)
		c.NonTrivial()
		if c.Index < 2 {
			c.Sample(map[string]any{"engine": "first report overlapping a limit update", "pull": pull, "new_lifetime": reopen, "old_limit": L1, "new_limit": L2})
		}
		f.stop()
	})
}
