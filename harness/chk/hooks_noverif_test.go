//go:build !verif

package chk

import (
	"github.com/ipfs/go-graphsync"

	datatransfer "github.com/filecoin-project/go-data-transfer/v2"
	"github.com/filecoin-project/go-data-transfer/v2/channels"
	gst "github.com/filecoin-project/go-data-transfer/v2/transport/graphsync"
)

// fallback when the hook files do not compile: hook-based invariants are "not observed".
const hooksOn = false

type verifChannel struct {
	IsOpen, HasRequestID, RequesterCancelled, XferStarted, StoreRegistered bool
	RequestID                                                              graphsync.RequestID
	PendingExtensions                                                      int
	MaxLinks                                                               uint64
}
type tsnap struct {
	tracked []datatransfer.ChannelID
	details map[datatransfer.ChannelID]verifChannel
	routes  map[graphsync.RequestID]datatransfer.ChannelID
}

func hookTransport(t *gst.Transport) (tsnap, bool) { return tsnap{}, false }

type cacheSnap struct {
	q, s, r         int64
	limit, progress uint64
	hasProgress     bool
}

func hookCaches(cs *channels.Channels, chid datatransfer.ChannelID) (cacheSnap, bool) {
	return cacheSnap{}, false
}

type internals struct {
	spans, options int
	monitored      []datatransfer.ChannelID
	subscribers    func(datatransfer.ChannelID) int
	channels       *channels.Channels
}

func hookInternals(m datatransfer.Manager) (internals, bool) { return internals{}, false }
