package chk

import (
	"errors"
	"fmt"
	"sync"
	"testing"

	"github.com/anishathalye/porcupine"
	"github.com/libp2p/go-libp2p/core/peer"

	datatransfer "github.com/filecoin-project/go-data-transfer/v2"

	"verif/harness/internal/doubles"
	"verif/harness/internal/gen"
	"verif/harness/internal/vf"
)

// ---- C19: channel state views are total and self-consistent ------------------------------------

// checkDerived verifies the derived views of one state against how the channel was created.
func checkDerived(c *vf.Case, where string, v *doubles.StateView, self, initiator, responder peer.ID, pull bool, opening doubles.TV) {
	wantRecipient := responder
	if pull {
		wantRecipient = initiator
	}
	if v.IsPull != (v.Chid.Initiator == v.Recipient) || v.IsPull != pull || v.Recipient != wantRecipient {
		c.Violation("C19", "ispull-inconsistent", "%s: IsPull=%v recipient=%s initiator=%s (created pull=%v)", where, v.IsPull, v.Recipient, v.Chid.Initiator, pull)
	}
	if v.Chid.Initiator != initiator || v.Chid.Responder != responder || v.Chid.ID != v.TransferID {
		c.Violation("C19", "channelid-inconsistent", "%s: ChannelID %s, created (%s,%s,%d)", where, v.Chid, initiator, responder, v.TransferID)
	}
	if v.Self != self || v.Other == self || (v.Other != initiator && v.Other != responder) {
		c.Violation("C19", "otherpeer-inconsistent", "%s: SelfPeer=%s OtherPeer=%s", where, v.Self, v.Other)
	}
	if v.Voucher != opening {
		c.Violation("C19", "first-voucher-changed", "%s: Voucher() is %v, the channel was opened with %v", where, v.Voucher, opening)
	}
	if len(v.Vouchers) == 0 || v.Vouchers[0] != opening {
		c.Violation("C19", "voucher-log-head", "%s: voucher log does not start with the opening voucher", where)
	}
	empty := doubles.TV{Type: "", CBOR: "f6"}
	wantLV, wantLR := empty, empty
	if n := len(v.Vouchers); n > 0 {
		wantLV = v.Vouchers[n-1]
	}
	if n := len(v.Results); n > 0 {
		wantLR = v.Results[n-1]
	}
	if v.LastVoucher != wantLV {
		c.Violation("C19", "lastvoucher-inconsistent", "%s: LastVoucher %v, log ends with %v", where, v.LastVoucher, wantLV)
	}
	if v.LastResult != wantLR {
		c.Violation("C19", "lastvoucherresult-inconsistent", "%s: LastVoucherResult %v, log ends with %v (%d results)", where, v.LastResult, wantLR, len(v.Results))
	}
	if v.BothPaused != (v.InitiatorPaused && v.ResponderPaused) {
		c.Violation("C19", "bothpaused-inconsistent", "%s", where)
	}
}

func isPrefix(a, b []doubles.TV) bool {
	if len(a) > len(b) {
		return false
	}
	for i := range a {
		if a[i] != b[i] {
			return false
		}
	}
	return true
}

// checkAppendOnly verifies that along a snapshot stream both logs only ever grow at the end.
func checkAppendOnly(c *vf.Case, who string, evs []doubles.SEvent) {
	for i := 1; i < len(evs); i++ {
		p, n := evs[i-1].View, evs[i].View
		if !isPrefix(p.Vouchers, n.Vouchers) {
			c.Violation("C19", "voucher-log-not-append-only", "%s: voucher log changed other than by appending at %s", who, evs[i].Code)
		}
		if !isPrefix(p.Results, n.Results) {
			c.Violation("C19", "result-log-not-append-only", "%s: voucher-result log changed other than by appending at %s", who, evs[i].Code)
		}
	}
}

func tvList(vs []datatransfer.TypedVoucher) []doubles.TV {
	var out []doubles.TV
	for _, v := range vs {
		out = append(out, doubles.TVOf(v))
	}
	return out
}

func TestC19Logs(t *testing.T) {
	vf.Run(t, "C19Logs", vf.Opts{Bubble: true, DefaultN: 30}, func(c *vf.Case) {
		r := c.Rng
		pull := c.Index%2 == 0
		tp := newTwoParty(c, pull, datatransfer.ValidationResult{Accepted: true})
		A, B, chid := tp.a, tp.b, tp.chid
		v0 := A.view(chid)
		if v0 == nil || B.view(chid) == nil {
			c.Violation("C19", "setup-failed", "two-party setup failed")
			tp.stop()
			return
		}
		opening := v0.Voucher
		wantV := []doubles.TV{opening} // vouchers both sides must end up with
		var wantR []doubles.TV         // results both sides must end up with
		n := 3 + r.Intn(25)
		var trace []string
		ownSideDone := false
		for i := 0; i < n; i++ {
			fail := r.Intn(3) == 0
			if !ownSideDone && r.Intn(6) == 0 {
				// the initiator's own transport finishes; the responder's completion is still outstanding
				// (TransferFinished): the channel lives on and so do its logs
				A.tp.Events().OnChannelCompleted(chid, nil)
				settle()
				ownSideDone = true
				trace = append(trace, "initiator-transport-finished")
				c.Count("logs_after_own_side_finished", 1)
			}
			if r.Intn(8) == 0 {
				// the RESPONDER restarts the channel; its restart validation yields a voucher result each time
				// it is consulted. Only what the responder actually sends goes into the logs, once.
				nrest := 0
				B.val.SetOutcome(func(kind string, n int, ch datatransfer.ChannelID) (datatransfer.ValidationResult, error) {
					if kind != "restart" {
						return datatransfer.ValidationResult{Accepted: true}, nil
					}
					nrest++
					vr := datatransfer.TypedVoucher{Type: "RTrestart", Voucher: gen.ToNode(fmt.Sprintf("restart-result-%d-%d", i, nrest))}
					return datatransfer.ValidationResult{Accepted: true, VoucherResult: &vr}, nil
				})
				nnet, nd := B.net.Len(), len(tp.br.deliveries())
				err := B.m.RestartDataTransferChannel(bg, chid)
				settle()
				B.val.SetOutcome(func(kind string, n int, ch datatransfer.ChannelID) (datatransfer.ValidationResult, error) {
					return datatransfer.ValidationResult{Accepted: true}, nil
				})
				// what the responder put on the wire during the restart
				var carried []datatransfer.Message
				for _, nc := range B.net.Sends(nnet) {
					if nc.Err == nil {
						carried = append(carried, nc.Msg)
					}
				}
				for _, d := range tp.br.deliveries()[nd:] { // ... and through the transport (requests it opened or resumed, replies to the initiator's request)
					if d.To == A && d.Msg != nil {
						carried = append(carried, d.Msg)
					}
				}
				for _, m := range carried {
					if rs, ok := m.(datatransfer.Response); ok && rs.TransferID() == chid.ID && !rs.EmptyVoucherResult() {
						n, _ := rs.VoucherResult()
						wantR = append(wantR, doubles.TV{Type: string(rs.VoucherResultType()), CBOR: doubles.CBOR(n)})
					}
				}
				trace = append(trace, fmt.Sprintf("responder-restart(err=%v, validations=%d)", err != nil, nrest))
				c.Count("responder_restarts", 1)
				goto compare
			}
			switch r.Intn(4) {
			case 0, 1: // initiator sends a voucher
				v := gen.Voucher(r, "VT"+fmt.Sprint(r.Intn(3)))
				if r.Intn(5) == 0 && len(wantV) > 0 { // the same voucher again is still a new entry
					v = datatransfer.TypedVoucher{Type: datatransfer.TypeIdentifier(wantV[len(wantV)-1].Type), Voucher: gen.ToNode(int64(i))}
				}
				if fail {
					A.net.SetOnSend(func(peer.ID, datatransfer.Message) error { return errors.New("no route") })
				}
				err := A.m.SendVoucher(bg, chid, v)
				A.net.SetOnSend(nil)
				settle()
				if fail != (err != nil) {
					c.Violation("C19", "sendvoucher-result", "SendVoucher with failing network=%v returned %v", fail, err)
				}
				if err == nil {
					wantV = append(wantV, doubles.TVOf(v))
				}
				trace = append(trace, fmt.Sprintf("voucher(fail=%v)", fail))
				c.Count("vouchers_sent", 1)
				if fail {
					c.Count("failed_sends", 1)
				}
			case 2: // responder sends a voucher result
				res := gen.Voucher(r, "RT"+fmt.Sprint(r.Intn(3)))
				if r.Intn(4) == 0 && len(wantR) > 0 { // a repeated, identical result is a new entry as well
					res = datatransfer.TypedVoucher{Type: datatransfer.TypeIdentifier(wantR[len(wantR)-1].Type), Voucher: gen.ToNode("same")}
					if r.Intn(2) == 0 {
						last := B.view(chid).Results
						_ = last
					}
				}
				if fail {
					B.net.SetOnSend(func(peer.ID, datatransfer.Message) error { return errors.New("no route") })
				}
				err := B.m.SendVoucherResult(bg, chid, res)
				B.net.SetOnSend(nil)
				settle()
				if fail != (err != nil) {
					c.Violation("C19", "sendvoucherresult-result", "SendVoucherResult with failing network=%v returned %v", fail, err)
				}
				if err == nil {
					wantR = append(wantR, doubles.TVOf(res))
					// an identical result right after: must be logged again
					if r.Intn(3) == 0 {
						if B.m.SendVoucherResult(bg, chid, res) == nil {
							wantR = append(wantR, doubles.TVOf(res))
						}
						settle()
					}
				}
				trace = append(trace, fmt.Sprintf("result(fail=%v)", fail))
				c.Count("results_sent", 1)
				if fail {
					c.Count("failed_sends", 1)
				}
			case 3: // the responder's validation update carries a result
				res := gen.Voucher(r, "RT9")
				err := B.m.UpdateValidationStatus(bg, chid, datatransfer.ValidationResult{Accepted: true, VoucherResult: &res})
				settle()
				if err == nil {
					wantR = append(wantR, doubles.TVOf(res))
				}
				trace = append(trace, "validation-result")
				c.Count("validation_results", 1)
			}
		compare:
			for _, side := range []*mgrFix{A, B} {
				name := "initiator"
				if side == B {
					name = "responder"
				}
				v := side.view(chid)
				if v == nil {
					continue
				}
				if !tvEq2(v.Vouchers, wantV) {
					c.Violation("C19", fmt.Sprintf("voucher-log-mismatch %s have=%d want=%d", name, len(v.Vouchers), len(wantV)), "%s's voucher log after %v has %d entries, %d were sent successfully (plus the opening one)", name, trace, len(v.Vouchers), len(wantV))
				}
				if !tvEq2(v.Results, wantR) {
					c.Violation("C19", fmt.Sprintf("result-log-mismatch %s have=%d want=%d", name, len(v.Results), len(wantR)), "%s's voucher-result log after %v has %d entries, %d were sent successfully", name, trace, len(v.Results), len(wantR))
				}
				checkDerived(c, name, v, side.self, chid.Initiator, chid.Responder, pull, opening)
			}
		}
		checkAppendOnly(c, "initiator", A.sub.For(chid))
		checkAppendOnly(c, "responder", B.sub.For(chid))
		for _, e := range A.sub.For(chid) {
			checkDerived(c, "initiator snapshot", e.View, A.self, chid.Initiator, chid.Responder, pull, opening)
		}
		for _, e := range B.sub.For(chid) {
			checkDerived(c, "responder snapshot", e.View, B.self, chid.Initiator, chid.Responder, pull, opening)
		}
		c.Count("states_probed", len(A.sub.For(chid))+len(B.sub.For(chid)))
		c.Mark("pull=%v nv=%d nr=%d", pull, min(len(wantV), 6), min(len(wantR), 6))
		c.NonTrivial()
		if c.Index < 2 {
			c.Sample(map[string]any{"pull": pull, "exchanges": trace, "vouchers_logged": len(wantV), "results_logged": len(wantR)})
		}
		tp.stop()
	})
}

func tvEq2(a, b []doubles.TV) bool {
	if len(a) != len(b) {
		return false
	}
	for i := range a {
		if a[i] != b[i] {
			return false
		}
	}
	return true
}

// ---- concurrent senders and readers: the logs behave as linearizable append-only lists ----------

type logOp struct {
	append bool
	val    string
}

var appendOnlyModel = porcupine.Model{
	Init: func() interface{} { return "" },
	Step: func(st, in, out interface{}) (bool, interface{}) {
		op := in.(logOp)
		s := st.(string)
		if op.append {
			if !out.(bool) { // a failed send appends nothing
				return true, s
			}
			return true, s + op.val + ";"
		}
		return out.(string) == s, s
	},
	DescribeOperation: func(in, out interface{}) string { return fmt.Sprintf("%+v -> %v", in, out) },
}

func TestC19Concurrent(t *testing.T) {
	vf.Run(t, "C19Concurrent", vf.Opts{Bubble: true, DefaultN: 20}, func(c *vf.Case) {
		r := c.Rng
		pull := c.Index%2 == 0
		tp := newTwoParty(c, pull, datatransfer.ValidationResult{Accepted: true})
		A, B, chid := tp.a, tp.b, tp.chid
		if A.view(chid) == nil || B.view(chid) == nil {
			tp.stop()
			return
		}
		results := c.Index%4 >= 2 // results log on the responder, else the voucher log on the initiator
		side := A
		if results {
			side = B
		}
		render := func(vs []doubles.TV, skip int) string {
			s := ""
			for _, v := range vs[skip:] {
				s += v.CBOR + ";"
			}
			return s
		}
		skip := 1
		if results {
			skip = 0
		}
		writers, readers := 2+r.Intn(3), 1+r.Intn(2)
		per := 1 + r.Intn(2)
		var mu sync.Mutex
		var ops []porcupine.Operation
		var fns []func()
		for w := 0; w < writers; w++ {
			w := w
			vals := make([]datatransfer.TypedVoucher, per)
			for i := range vals {
				vals[i] = datatransfer.TypedVoucher{Type: "VT0", Voucher: gen.ToNode(fmt.Sprintf("w%d-%d", w, i))}
			}
			fns = append(fns, func() {
				for _, v := range vals {
					call := doubles.NextSeq()
					var err error
					if results {
						err = B.m.SendVoucherResult(bg, chid, v)
					} else {
						err = A.m.SendVoucher(bg, chid, v)
					}
					// the entry is durable once a state query issued after the call sees it: make the
					// append's return point the completion of a flushing query
					side.m.ChannelState(bg, chid)
					ret := doubles.NextSeq()
					mu.Lock()
					ops = append(ops, porcupine.Operation{ClientId: w, Input: logOp{true, doubles.TVOf(v).CBOR}, Call: call, Output: err == nil, Return: ret})
					mu.Unlock()
				}
			})
		}
		for rd := 0; rd < readers; rd++ {
			rd := rd
			fns = append(fns, func() {
				for i := 0; i < 2; i++ {
					call := doubles.NextSeq()
					st, err := side.m.ChannelState(bg, chid)
					ret := doubles.NextSeq()
					if err != nil {
						continue
					}
					v, p := doubles.ViewOf(st)
					probeC19(c, "concurrent ChannelState", p)
					list := v.Vouchers
					if results {
						list = v.Results
					}
					mu.Lock()
					ops = append(ops, porcupine.Operation{ClientId: writers + rd, Input: logOp{false, ""}, Call: call, Output: render(list, skip), Return: ret})
					mu.Unlock()
					doubles.Yield(5)
				}
			})
		}
		waitGroupGo(fns...)
		settle()
		// a final read closes the history
		fv := side.view(chid)
		list := fv.Vouchers
		if results {
			list = fv.Results
		}
		ops = append(ops, porcupine.Operation{ClientId: 99, Input: logOp{false, ""}, Call: doubles.NextSeq(), Output: render(list, skip), Return: doubles.NextSeq()})
		if !porcupine.CheckOperations(appendOnlyModel, ops) {
			c.Violation("C19", fmt.Sprintf("log-not-linearizable results=%v", results), "history of %d concurrent sends/reads on the %s log is not linearizable against an append-only list; final log %q", len(ops), map[bool]string{true: "voucher-result", false: "voucher"}[results], render(list, skip))
		}
		if len(list)-skip != writers*per {
			c.Violation("C19", "concurrent-sends-lost-or-duplicated", "%d successful sends, log has %d entries", writers*per, len(list)-skip)
		}
		c.Count("operations", len(ops))
		c.Mark("results=%v w=%d r=%d final=%s", results, writers, readers, render(list, skip))
		c.NonTrivial()
		if c.Index < 2 {
			c.Sample(map[string]any{"log": map[bool]string{true: "voucher results (responder)", false: "vouchers (initiator)"}[results], "writers": writers, "readers": readers, "operations": len(ops), "final_log": render(list, skip)})
		}
		tp.stop()
	})
}
