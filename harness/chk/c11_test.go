package chk

import (
	"errors"
	"fmt"
	"sync"
	"testing"

	"github.com/libp2p/go-libp2p/core/peer"

	datatransfer "github.com/filecoin-project/go-data-transfer/v2"
	"github.com/filecoin-project/go-data-transfer/v2/channels"

	"verif/harness/internal/doubles"
	"verif/harness/internal/gen"
	"verif/harness/internal/vf"
)

// ---- C11: pause state is tracked per party and a paused side stays paused ---------------------

// twoParty sets up initiator A and responder B (real managers over doubles) joined by the
// emulated transport and a loop-back network, with one accepted channel in a transferring status.
type twoParty struct {
	a, b *mgrFix
	br   *bridge
	chid datatransfer.ChannelID
	pull bool
}

func newTwoParty(c *vf.Case, pull bool, res datatransfer.ValidationResult) *twoParty {
	peers := gen.Peers(c.Rng, 2)
	a := newMgrFix(c, peers[0], nil)
	b := newMgrFix(c, peers[1], nil)
	b.val.SetOutcome(func(kind string, n int, ch datatransfer.ChannelID) (datatransfer.ValidationResult, error) {
		return res, nil
	})
	br := newBridge(a, b)
	chid, err := a.open(pull, peers[1], gen.Voucher(c.Rng, "VT0"), dummyCid)
	if err != nil {
		panic(err)
	}
	settle()
	tp := &twoParty{a: a, b: b, br: br, chid: chid, pull: pull}
	// the graphsync layer reports that data started to flow
	a.tp.Events().OnTransferInitiated(chid)
	b.tp.Events().OnTransferInitiated(chid)
	settle()
	return tp
}

func (t *twoParty) stop() {
	t.a.checkProbes()
	t.b.checkProbes()
	t.a.stop()
	t.b.stop()
}

func TestC11TwoParty(t *testing.T) {
	vf.Run(t, "C11TwoParty", vf.Opts{Bubble: true, DefaultN: 40}, func(c *vf.Case) {
		r := c.Rng
		pull := c.Index%2 == 0
		tp := newTwoParty(c, pull, datatransfer.ValidationResult{Accepted: true})
		A, B, chid := tp.a, tp.b, tp.chid
		va, vb := A.view(chid), B.view(chid)
		if va == nil || vb == nil || va.Status != datatransfer.Ongoing || vb.Status != datatransfer.Ongoing {
			c.Violation("C11", "setup-not-ongoing", "two-party setup: initiator %v responder %v", va, vb)
			tp.stop()
			return
		}
		ip, rp := false, false // reference: who is paused
		completedAt := -1
		n := 2 + r.Intn(29)
		var trace []string
		for i := 0; i < n; i++ {
			act := r.Intn(4)
			if completedAt < 0 && r.Intn(25) == 0 && !rp {
				// the responder's transport finishes: it sends its Complete and terminates; the initiator
				// keeps its own pause state and may still pause/resume
				B.tp.Events().OnChannelCompleted(chid, nil)
				settle()
				completedAt = i
				trace = append(trace, "responder-completes")
			}
			if rp && completedAt < 0 && r.Intn(4) == 0 {
				// the responder un-pauses through re-validation: the un-pause travels as a
				// voucher-result response instead of a plain update
				nd := len(tp.br.deliveries())
				err := B.m.UpdateValidationStatus(bg, chid, datatransfer.ValidationResult{Accepted: true})
				settle()
				trace = append(trace, "resp-revalidate")
				rp = false
				if err != nil {
					c.Violation("C11", "revalidation-resume-error", "UpdateValidationStatus returned %v", err)
				}
				if ip {
					stay := false
					for _, d := range tp.br.deliveries()[nd:] {
						if d.To == A && errors.Is(d.Err, datatransfer.ErrPause) {
							stay = true
						}
					}
					if !stay {
						c.Violation("C11", "counterparty-resume-unpauses-local resp-revalidate", "responder un-paused through a validation update while the initiator is still paused: the initiator's transport was not told to stay paused")
					}
					c.Count("resume_while_other_paused", 1)
				}
				for _, side := range []*mgrFix{A, B} {
					if v := side.view(chid); v != nil && (v.InitiatorPaused != ip || v.ResponderPaused != rp) {
						c.Violation("C11", "flags-diverge after resp-revalidate", "view (ip=%v rp=%v), reference (ip=%v rp=%v) after %v", v.InitiatorPaused, v.ResponderPaused, ip, rp, trace)
					}
				}
				c.Count("revalidation_resumes", 1)
				continue
			}
			if completedAt < 0 && r.Intn(6) == 0 {
				// voucher traffic is not a pause or resume action: whatever pause bit the messages carry,
				// neither side's view of who is paused may move
				tv := gen.Voucher(r, "VT1")
				what := "responder sends voucher result"
				var err error
				if r.Intn(2) == 0 {
					err = B.m.SendVoucherResult(bg, chid, tv)
				} else {
					what = "initiator sends voucher"
					err = A.m.SendVoucher(bg, chid, tv)
				}
				settle()
				trace = append(trace, what)
				if err != nil {
					c.Note("%s: %v", what, err)
				}
				for _, side := range []*mgrFix{A, B} {
					if v := side.view(chid); v != nil && (v.InitiatorPaused != ip || v.ResponderPaused != rp) {
						sname := map[bool]string{true: "initiator", false: "responder"}[side == A]
						c.Violation("C11", "flags-diverge "+sname+" after voucher traffic", "%s view (ip=%v rp=%v), reference (ip=%v rp=%v) after %v", sname, v.InitiatorPaused, v.ResponderPaused, ip, rp, trace)
					}
				}
				c.Count("voucher_traffic_between_pauses", 1)
				continue
			}
			who := A
			name := []string{"init-pause", "init-resume", "resp-pause", "resp-resume"}[act]
			if act >= 2 {
				who = B
			}
			if act >= 2 && completedAt >= 0 {
				continue // the responder is done; its pause/resume is meaningless now (covered by C11Step)
			}
			if act == 0 && completedAt >= 0 {
				// a fresh pause after the responder completed is one of the requests the state machine
				// ignores as meaningless (only a resume of an earlier pause is still accepted there);
				// the property allows ignoring it, so it is not generated here (C11Step covers "ignored,
				// not corrupting")
				continue
			}
			ntp, nnet := who.tp.Len(), who.net.Len()
			nd := len(tp.br.deliveries())
			var err error
			if act%2 == 0 {
				err = who.m.PauseDataTransferChannel(bg, chid)
			} else {
				err = who.m.ResumeDataTransferChannel(bg, chid)
			}
			settle()
			trace = append(trace, name)
			if err != nil {
				c.Violation("C11", "pause-resume-api-error "+name, "%s returned %v", name, err)
			}
			switch act {
			case 0:
				ip = true
			case 1:
				ip = false
			case 2:
				rp = true
			case 3:
				rp = false
			}
			// local action reaches the transport and is announced with a message of the right kind
			op := "pause"
			if act%2 == 1 {
				op = "resume"
			}
			if doubles.CountOp(who.tp.CallsFrom(ntp), op, chid) != 1 {
				c.Violation("C11", "transport-not-told "+name, "%s: transport %s called %d times", name, op, doubles.CountOp(who.tp.CallsFrom(ntp), op, chid))
			}
			announced := false
			check := func(m datatransfer.Message) {
				if m == nil || !m.IsUpdate() || m.TransferID() != chid.ID {
					return
				}
				if m.IsRequest() != (who == A) {
					c.Violation("C11", "announcement-wrong-kind "+name, "%s announced with a %s message", name, map[bool]string{true: "request", false: "response"}[m.IsRequest()])
				}
				if m.IsPaused() != (act%2 == 0) {
					c.Violation("C11", "announcement-wrong-pause-bit "+name, "%s announced with paused=%v", name, m.IsPaused())
				}
				announced = true
			}
			for _, s := range who.net.Sends(nnet) {
				check(s.Msg)
			}
			for _, tc := range who.tp.CallsFrom(ntp) {
				if tc.Op == "resume" {
					check(tc.Msg)
				}
			}
			if !announced {
				c.Violation("C11", "not-announced "+name, "%s was not announced to the counterparty", name)
			}
			// the counterparty resumed while the local side is still paused: the transport stays paused
			if act%2 == 1 {
				otherSide, otherPaused := B, rp
				if who == B {
					otherSide, otherPaused = A, ip
				}
				if otherPaused && !(otherSide == B && completedAt >= 0) {
					stay := false
					for _, d := range tp.br.deliveries()[nd:] {
						if d.To == otherSide && errors.Is(d.Err, datatransfer.ErrPause) {
							stay = true
						}
					}
					if doubles.CountOp(otherSide.tp.Calls(), "pause", chid) > 0 && !stay {
						// the receiver path pauses the transport explicitly
						for _, tc := range otherSide.tp.Calls() {
							if tc.Op == "pause" && tc.Call > who.tp.CallsFrom(ntp)[0].Call {
								stay = true
							}
						}
					}
					if !stay {
						c.Violation("C11", "counterparty-resume-unpauses-local "+name, "%s while the other side is still paused: the other side's transport was not told to stay paused", name)
					}
					c.Count("resume_while_other_paused", 1)
				}
			}
			// both views follow exactly the actions seen (everything is delivered at quiescence)
			for _, side := range []*mgrFix{A, B} {
				if side == B && completedAt >= 0 {
					continue
				}
				v := side.view(chid)
				sname := "initiator"
				if side == B {
					sname = "responder"
				}
				if v == nil {
					continue
				}
				wantRP := rp
				if v.InitiatorPaused != ip || v.ResponderPaused != wantRP {
					c.Violation("C11", fmt.Sprintf("flags-diverge %s after %s", sname, name), "%s's view (ip=%v rp=%v) after %v, reference (ip=%v rp=%v), status %s", sname, v.InitiatorPaused, v.ResponderPaused, trace, ip, rp, v.Status)
				}
				if v.BothPaused != (v.InitiatorPaused && v.ResponderPaused) {
					c.Violation("C11", "both-paused-not-conjunction", "BothPaused=%v with ip=%v rp=%v", v.BothPaused, v.InitiatorPaused, v.ResponderPaused)
				}
				self := v.InitiatorPaused
				if side == B {
					self = v.ResponderPaused
				}
				if v.SelfPaused != self {
					c.Violation("C11", "self-paused-wrong-role "+sname, "%s: SelfPaused=%v, own flag=%v", sname, v.SelfPaused, self)
				}
			}
			c.Count("actions", 1)
		}
		if completedAt >= 0 {
			c.Count("with_responder_completion", 1)
		}
		il := ""
		for i, s := range trace {
			if i < 14 {
				il += s[:1] + s[len(s)-2:] + ","
			}
		}
		c.Mark("pull=%v il=%s", pull, il)
		c.NonTrivial()
		if c.Index < 2 {
			c.Sample(map[string]any{"pull": pull, "actions": trace})
		}
		tp.stop()
	})
}

// TestC11Step: pause/resume events in every status: ignored or changing exactly their own flag.
func TestC11Step(t *testing.T) {
	vf.Run(t, "C11Step", vf.Opts{Bubble: true, DefaultN: 16}, func(c *vf.Case) {
		kinds := []int{9, 10, 11, 12} // PauseInitiator PauseResponder ResumeInitiator ResumeResponder
		kind := kinds[c.Index%4]
		rl := allRoles[(c.Index/4)%4]
		peers := gen.Peers(c.Rng, 2)
		ds, ids, _ := injectStore(peers[0], peers[1], rl.Initiator, rl.Pull)
		sub := &doubles.SubLog{}
		cs, err := channels.New(ds, channels.Notifier(sub.Fn()), doubles.NewRecEnv(peers[0]), peers[0])
		if err != nil {
			panic(err)
		}
		cs.Start(bg)
		applied, ignored := 0, 0
		for _, chid := range ids {
			st, _ := cs.GetByID(bg, chid)
			before, _ := doubles.ViewOf(st)
			op := opByKind(c.Rng, &blockCounter{}, kind)
			op.Do(cs, chid)
			settle()
			st2, _ := cs.GetByID(bg, chid)
			after, _ := doubles.ViewOf(st2)
			// derived flags, on every state seen: both-paused is the conjunction, self-paused is the flag of
			// the local role, and a responder awaiting finalization counts as paused in all of them
			for _, v := range []*doubles.StateView{before, after} {
				if v == nil {
					continue
				}
				if v.Status == datatransfer.Finalizing && !v.ResponderPaused {
					c.Violation("C11", "finalizing-responder-not-paused", "status Finalizing but ResponderPaused()=false")
				}
				if v.BothPaused != (v.InitiatorPaused && v.ResponderPaused) {
					c.Violation("C11", "both-paused-not-conjunction "+v.Status.String(), "status %s: InitiatorPaused=%v ResponderPaused=%v but BothPaused=%v", v.Status, v.InitiatorPaused, v.ResponderPaused, v.BothPaused)
				}
				wantSelf := v.ResponderPaused
				if rl.Initiator {
					wantSelf = v.InitiatorPaused
				}
				if v.SelfPaused != wantSelf {
					c.Violation("C11", "self-paused-wrong-role "+v.Status.String(), "status %s, local role initiator=%v: InitiatorPaused=%v ResponderPaused=%v but SelfPaused=%v", v.Status, rl.Initiator, v.InitiatorPaused, v.ResponderPaused, v.SelfPaused)
				}
				c.Count("derived_flag_checks", 1)
			}
			d := doubles.Diff(before, after, false)
			if len(d) == 0 {
				ignored++
				continue
			}
			applied++
			allowed := map[string]bool{"BothPaused": true, "SelfPaused": true}
			switch kind {
			case 9, 11:
				allowed["InitiatorPaused"] = true
			case 10, 12:
				allowed["ResponderPaused"] = true
			}
			if kind == 12 && before.Status == datatransfer.Finalizing {
				allowed["Status"] = true // the release of a finalizing responder (C03)
			}
			for _, fld := range d {
				if !allowed[fld] {
					c.Violation("C11", fmt.Sprintf("pause-event-changed-%s %s in %s", fld, op.Name, before.Status), "%s in status %s (ip=%v rp=%v) changed %v", op.Name, before.Status, before.InitiatorPaused, before.ResponderPaused, d)
				}
			}
			wantI, wantR := before.InitiatorPaused, before.ResponderPaused
			switch kind {
			case 9:
				wantI = true
			case 11:
				wantI = false
			case 10:
				wantR = true
			case 12:
				wantR = false
			}
			if after.Status != datatransfer.Finalizing && before.Status != datatransfer.Finalizing && (after.InitiatorPaused != wantI || after.ResponderPaused != wantR) {
				c.Violation("C11", "pause-event-wrong-flag "+op.Name, "%s in %s: flags (%v,%v) -> (%v,%v), want (%v,%v)", op.Name, before.Status, before.InitiatorPaused, before.ResponderPaused, after.InitiatorPaused, after.ResponderPaused, wantI, wantR)
			}
			c.Mark("%s:%s", op.Name, before.Status)
		}
		c.Count("applied", applied)
		c.Count("ignored", ignored)
		c.Mark("kind=%d role=%s", kind, rl)
		c.NonTrivial()
		if c.Index < 1 {
			c.Sample(map[string]any{"event_kind": kind, "role": rl.String(), "applied_in_statuses": applied, "ignored_in_statuses": ignored})
		}
		cs.Stop(bg)
		settle()
	})
}

// TestC11EarlyPause: the initiator pauses (and later resumes) its channel in the window between
// opening it and processing the responder's acceptance - the acceptance is on its way, held back by
// the network. The responder has accepted already and is a full party to the channel: the pause must
// be applied to the transport and announced to it like any other, and its view must follow.
func TestC11EarlyPause(t *testing.T) {
	vf.Run(t, "C11EarlyPause", vf.Opts{Bubble: true, DefaultN: 16}, func(c *vf.Case) {
		r := c.Rng
		pull := c.Index%2 == 0
		peers := gen.Peers(r, 2)
		A := newMgrFix(c, peers[0], nil)
		B := newMgrFix(c, peers[1], nil)
		br := newBridge(A, B)
		var hmu sync.Mutex
		holding := true
		var held []func()
		hold := func(to *mgrFix, chid datatransfer.ChannelID, msg datatransfer.Message, deliver func()) bool {
			hmu.Lock()
			defer hmu.Unlock()
			if to == A && holding {
				held = append(held, deliver)
				return true
			}
			return false
		}
		br.mu.Lock()
		br.hold = hold
		br.mu.Unlock()
		A.net.SetHold(func(p peer.ID, m datatransfer.Message, deliver func()) bool { return false })
		B.net.SetHold(func(p peer.ID, m datatransfer.Message, deliver func()) bool {
			hmu.Lock()
			defer hmu.Unlock()
			if holding {
				held = append(held, deliver)
				return true
			}
			return false
		})
		chid, err := A.open(pull, peers[1], gen.Voucher(r, "VT0"), dummyCid)
		if err != nil {
			panic(err)
		}
		settle()
		va, vb := A.view(chid), B.view(chid)
		if va == nil || vb == nil {
			c.Note("setup: initiator %v responder %v", va, vb)
			A.stop()
			B.stop()
			return
		}
		accepted := false
		for _, e := range A.sub.For(chid) {
			if e.Code == datatransfer.Accept {
				accepted = true
			}
		}
		if accepted {
			c.Note("the acceptance was not held back (status %s)", va.Status)
		} else {
			c.Count("pauses_before_acceptance_processed", 1)
		}
		check := func(what string, wantIP bool, nnet, ntp int) {
			announced := false
			for _, s := range A.net.Sends(nnet) {
				if m := s.Msg; m != nil && m.IsUpdate() && m.IsRequest() && m.TransferID() == chid.ID && m.IsPaused() == wantIP {
					announced = true
				}
			}
			for _, tc := range A.tp.CallsFrom(ntp) {
				if m := tc.Msg; tc.Op == "resume" && m != nil && m.IsUpdate() && m.IsRequest() && m.IsPaused() == wantIP {
					announced = true
				}
			}
			if !announced {
				c.Violation("C11", "not-announced "+what, "%s before the acceptance was processed (initiator status %s) was not announced to the responder", what, va.Status)
			}
			op := map[bool]string{true: "pause", false: "resume"}[wantIP]
			if doubles.CountOp(A.tp.CallsFrom(ntp), op, chid) != 1 {
				c.Violation("C11", "transport-not-told "+what, "%s: transport %s called %d times", what, op, doubles.CountOp(A.tp.CallsFrom(ntp), op, chid))
			}
			if v := B.view(chid); v != nil && v.InitiatorPaused != wantIP {
				c.Violation("C11", "flags-diverge responder after "+what, "responder's view InitiatorPaused=%v after the initiator's %s (initiator status %s)", v.InitiatorPaused, what, va.Status)
			}
			if v := A.view(chid); v != nil && v.InitiatorPaused != wantIP {
				c.Violation("C11", "flags-diverge initiator after "+what, "initiator's own view InitiatorPaused=%v after its %s", v.InitiatorPaused, what)
			}
		}
		nnet, ntp := A.net.Len(), A.tp.Len()
		if err := A.m.PauseDataTransferChannel(bg, chid); err != nil {
			c.Violation("C11", "pause-resume-api-error init-pause", "pause before acceptance returned %v", err)
		}
		settle()
		check("init-pause", true, nnet, ntp)
		resumeEarly := r.Intn(2) == 0
		if resumeEarly {
			nnet, ntp = A.net.Len(), A.tp.Len()
			A.m.ResumeDataTransferChannel(bg, chid)
			settle()
			check("init-resume", false, nnet, ntp)
		}
		// the acceptance arrives
		hmu.Lock()
		holding = false
		hs := held
		held = nil
		hmu.Unlock()
		for _, d := range hs {
			d()
		}
		settle()
		for _, side := range []*mgrFix{A, B} {
			if v := side.view(chid); v != nil && v.InitiatorPaused == resumeEarly {
				c.Violation("C11", "flags-diverge after acceptance", "after the acceptance arrived a view shows InitiatorPaused=%v, the initiator's last action says %v", v.InitiatorPaused, !resumeEarly)
			}
		}
		c.Mark("pull=%v resumeEarly=%v accepted=%v", pull, resumeEarly, accepted)
		c.NonTrivial()
		if c.Index < 2 {
			c.Sample(map[string]any{"engine": "pause before the acceptance is processed", "pull": pull, "initiator_status_at_pause": va.Status.String(), "responder_status_at_pause": vb.Status.String()})
		}
		for _, side := range []*mgrFix{A, B} {
			side.m.CloseDataTransferChannel(bg, chid)
		}
		settle()
		A.stop()
		B.stop()
	})
}
