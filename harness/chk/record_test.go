package chk

import (
	"bytes"
	"encoding/hex"
	"fmt"

	"github.com/ipfs/go-cid"
	"github.com/libp2p/go-libp2p/core/peer"

	datatransfer "github.com/filecoin-project/go-data-transfer/v2"

	"verif/harness/internal/cborx"
	"verif/harness/internal/doubles"
)

// recordToView decodes a stored version-3 channel record with the independent decoder and renders
// it as the StateView the library should present for it (derived views per the property texts).
func recordToView(raw []byte) (*doubles.StateView, error) {
	d, err := cborx.Decode(raw)
	if err != nil {
		return nil, err
	}
	m, ok := d.(map[string]any)
	if !ok {
		return nil, fmt.Errorf("record is %T, not a map", d)
	}
	u := func(k string) uint64 {
		switch x := m[k].(type) {
		case uint64:
			return x
		case int64:
			return uint64(x)
		}
		return 0
	}
	i := func(k string) int64 {
		switch x := m[k].(type) {
		case uint64:
			return int64(x)
		case int64:
			return x
		}
		return 0
	}
	s := func(k string) string { x, _ := m[k].(string); return x }
	b := func(k string) bool { x, _ := m[k].(bool); return x }
	hx := func(v any) string { return hex.EncodeToString(cborx.Canon(v)) }
	v := &doubles.StateView{}
	v.Self = peer.ID(s("SelfPeer"))
	v.TransferID = datatransfer.TransferID(u("TransferID"))
	ini, rsp := peer.ID(s("Initiator")), peer.ID(s("Responder"))
	v.Sender, v.Recipient = peer.ID(s("Sender")), peer.ID(s("Recipient"))
	v.IsPull = ini == v.Recipient
	v.Chid = datatransfer.ChannelID{Initiator: ini, Responder: rsp, ID: v.TransferID}
	if v.Sender == v.Self {
		v.Other = v.Recipient
	} else {
		v.Other = v.Sender
	}
	if c, ok := m["BaseCid"].(cid.Cid); ok {
		v.BaseCID = c.String()
	}
	v.Selector = hx(m["Selector"])
	v.Status = datatransfer.Status(u("Status"))
	v.Message = s("Message")
	v.Queued, v.Sent, v.Received = u("Queued"), u("Sent"), u("Received")
	v.QueuedIdx, v.SentIdx, v.RecvIdx = i("QueuedBlocksTotal"), i("SentBlocksTotal"), i("ReceivedBlocksTotal")
	v.TotalSize = u("TotalSize")
	v.DataLimit = u("DataLimit")
	v.RequiresFinalization = b("RequiresFinalization")
	v.InitiatorPaused = b("InitiatorPaused")
	v.ResponderPaused = b("ResponderPaused") || v.Status == datatransfer.Finalizing
	v.BothPaused = v.InitiatorPaused && v.ResponderPaused
	if v.Self == ini {
		v.SelfPaused = v.InitiatorPaused
	} else {
		v.SelfPaused = v.ResponderPaused
	}
	if l, ok := m["Vouchers"].([]any); ok {
		for _, e := range l {
			em, _ := e.(map[string]any)
			t, _ := em["Type"].(string)
			v.Vouchers = append(v.Vouchers, doubles.TV{Type: t, CBOR: hx(em["Voucher"])})
		}
	}
	if l, ok := m["VoucherResults"].([]any); ok {
		for _, e := range l {
			em, _ := e.(map[string]any)
			t, _ := em["Type"].(string)
			v.Results = append(v.Results, doubles.TV{Type: t, CBOR: hx(em["VoucherResult"])})
		}
	}
	empty := doubles.TV{Type: "", CBOR: "f6"}
	v.Voucher, v.LastVoucher, v.LastResult = empty, empty, empty
	if len(v.Vouchers) > 0 {
		v.Voucher = v.Vouchers[0]
		v.LastVoucher = v.Vouchers[len(v.Vouchers)-1]
	}
	if len(v.Results) > 0 {
		v.LastResult = v.Results[len(v.Results)-1]
	}
	// stages: ChannelStages is tuple-encoded: [ [ [Name, Description, Created, Updated, [[Log, Updated]...]] ... ] ]
	if st, ok := m["Stages"].([]any); ok && len(st) == 1 {
		if list, ok := st[0].([]any); ok {
			v.NStages = len(list)
			var sb bytes.Buffer
			for _, sg := range list {
				t, ok := sg.([]any)
				if !ok || len(t) != 5 {
					sb.WriteString("<nil>;")
					continue
				}
				n, _ := t[0].(string)
				dsc, _ := t[1].(string)
				fmt.Fprintf(&sb, "%s|%s|%d|%d[", n, dsc, asI64(t[2]), asI64(t[3]))
				if logs, ok := t[4].([]any); ok {
					for _, lg := range logs {
						if lt, ok := lg.([]any); ok && len(lt) == 2 {
							ls, _ := lt[0].(string)
							fmt.Fprintf(&sb, "%s@%d,", ls, asI64(lt[1]))
						}
					}
				}
				sb.WriteString("];")
			}
			v.Stages = sb.String()
		}
	}
	return v, nil
}

func asI64(v any) int64 {
	switch x := v.(type) {
	case uint64:
		return int64(x)
	case int64:
		return x
	}
	return 0
}
