//go:build verif

package chk

import (
	"github.com/ipfs/go-graphsync"

	datatransfer "github.com/filecoin-project/go-data-transfer/v2"
	"github.com/filecoin-project/go-data-transfer/v2/channels"
	dtimpl "github.com/filecoin-project/go-data-transfer/v2/impl"
	gst "github.com/filecoin-project/go-data-transfer/v2/transport/graphsync"
)

// hooks built with -tags verif: read-only snapshots of private state (see MANIFEST.hooks).
const hooksOn = true

type tsnap struct {
	tracked []datatransfer.ChannelID
	details map[datatransfer.ChannelID]gst.VerifChannel
	routes  map[graphsync.RequestID]datatransfer.ChannelID
}

func hookTransport(t *gst.Transport) (tsnap, bool) {
	tr, d, r := t.VerifSnapshot()
	return tsnap{tr, d, r}, true
}

type cacheSnap struct {
	q, s, r         int64
	limit, progress uint64
	hasProgress     bool
}

func hookCaches(cs *channels.Channels, chid datatransfer.ChannelID) (cacheSnap, bool) {
	q, s, r, l, p, ok := cs.VerifCaches(chid)
	return cacheSnap{q, s, r, l, p, ok}, true
}

type internals struct {
	spans, options int
	monitored      []datatransfer.ChannelID
	subscribers    func(datatransfer.ChannelID) int
	channels       *channels.Channels
}

func hookInternals(m datatransfer.Manager) (internals, bool) {
	v, ok := dtimpl.VerifInternalsOf(m)
	if !ok {
		return internals{}, false
	}
	return internals{v.OpenSpans, v.StoredOptions, v.Monitored, v.Subscribers, v.Channels}, true
}
