package chk

import (
	"context"
	"fmt"
	"sync"
	"testing/synctest"
	"time"

	"github.com/ipfs/go-cid"
	cidlink "github.com/ipld/go-ipld-prime/linking/cid"
	"github.com/libp2p/go-libp2p/core/peer"

	datatransfer "github.com/filecoin-project/go-data-transfer/v2"
	"github.com/filecoin-project/go-data-transfer/v2/channels"

	"verif/harness/internal/doubles"
	"verif/harness/internal/gen"
	"verif/harness/internal/vf"
)

var bg = context.Background()

// settle waits for quiescence of the bubble, advances virtual time by 1µs (so that two
// consecutive stimuli never share a timestamp) and waits again.
func settle() {
	synctest.Wait()
	time.Sleep(time.Microsecond)
	synctest.Wait()
}

// probeC19 reports an accessor panic on a state handed out by the library.
func probeC19(c *vf.Case, where string, panicAt string) {
	if panicAt != "" {
		name := panicAt
		for i := 0; i < len(name); i++ {
			if name[i] == ':' {
				name = name[:i]
				break
			}
		}
		c.Violation("C19", "accessor-panic "+name, "%s: accessor panicked: %s", where, panicAt)
	}
}

// chanFix is a channels.Channels instance over recording doubles.
type chanFix struct {
	c    *vf.Case
	ds   *doubles.RecDS
	env  *doubles.RecEnv
	sub  *doubles.SubLog
	cs   *channels.Channels
	self peer.ID
}

// newChanFix builds and starts a Channels on ds (a fresh RecDS when nil).
func newChanFix(c *vf.Case, ds *doubles.RecDS, self peer.ID) *chanFix {
	if ds == nil {
		ds = doubles.NewRecDS()
	}
	f := &chanFix{c: c, ds: ds, env: doubles.NewRecEnv(self), sub: &doubles.SubLog{}, self: self}
	inner := f.sub.Fn()
	cs, err := channels.New(ds, func(ev datatransfer.Event, st datatransfer.ChannelState) {
		inner(ev, st)
	}, f.env, self)
	if err != nil {
		panic(fmt.Sprintf("channels.New: %v", err))
	}
	f.cs = cs
	if err := cs.Start(bg); err != nil {
		panic(fmt.Sprintf("channels.Start: %v", err))
	}
	return f
}

// reopen stops the instance and starts a new one on the same datastore (cold caches).
func (f *chanFix) reopen() *chanFix {
	f.cs.Stop(bg)
	synctest.Wait()
	return newChanFix(f.c, f.ds, f.self)
}

func (f *chanFix) stop() { f.cs.Stop(bg); synctest.Wait() }

// view returns the durable state of a channel (GetByID flushes the state machine).
func (f *chanFix) view(chid datatransfer.ChannelID) *doubles.StateView {
	st, err := f.cs.GetByID(bg, chid)
	if err != nil {
		return nil
	}
	v, p := doubles.ViewOf(st)
	probeC19(f.c, "channels.GetByID", p)
	return v
}

// role describes one of the four channel roles from the point of view of `self`.
type role struct {
	Initiator bool // self initiated
	Pull      bool
}

func (r role) String() string {
	s := "resp"
	if r.Initiator {
		s = "init"
	}
	if r.Pull {
		return s + "-pull"
	}
	return s + "-push"
}

var allRoles = []role{{true, false}, {true, true}, {false, false}, {false, true}}

// create makes a channel of the given role between self and other.
func (f *chanFix) create(r role, other peer.ID, tid datatransfer.TransferID, root cid.Cid, v datatransfer.TypedVoucher) (datatransfer.ChannelID, error) {
	initiator, responder := f.self, other
	if !r.Initiator {
		initiator, responder = other, f.self
	}
	sender, recipient := initiator, responder
	if r.Pull {
		sender, recipient = responder, initiator
	}
	return f.cs.CreateNew(f.self, tid, root, gen.AllSelector, v, initiator, sender, recipient)
}

// toTransferring drives a freshly created channel into a status in which data events count.
// Initiators go Requested -> AwaitingAcceptance -> Ongoing, responders Requested -> Queued -> Ongoing.
func (f *chanFix) toOngoing(chid datatransfer.ChannelID, r role) {
	f.cs.Open(chid)
	if r.Initiator {
		f.cs.TransferInitiated(chid)
		f.cs.Accept(chid)
	} else {
		f.cs.Accept(chid)
		f.cs.TransferInitiated(chid)
	}
	settle()
}

// waitGroupGo runs fns concurrently and waits for them inside the bubble.
func waitGroupGo(fns ...func()) {
	var wg sync.WaitGroup
	for _, fn := range fns {
		wg.Add(1)
		go func() { defer wg.Done(); fn() }()
	}
	wg.Wait()
}

var dummyCid = func() cid.Cid {
	c, err := cid.Decode("bafyreigh2akiscaildcqabsyg3dfr6chu3fgpregiymsck7e7aqa4s52zy")
	if err != nil {
		panic(err)
	}
	return c
}()

var dummyLink = cidlink.Link{Cid: dummyCid}
