package chk

import (
	"errors"
	"fmt"
	"strings"
	"sync"
	"testing"

	datatransfer "github.com/filecoin-project/go-data-transfer/v2"

	"verif/harness/internal/doubles"
	"verif/harness/internal/gen"
	"verif/harness/internal/vf"
)

// ---- C06: durable and prefix-consistent across crashes ---------------------------------------

func keyFor(log []doubles.Write, chid datatransfer.ChannelID) string {
	suffix := "/" + chid.String()
	for _, w := range log {
		if strings.HasSuffix(w.Key, suffix) {
			return w.Key
		}
	}
	return ""
}

func sameView(a, b *doubles.StateView) bool { return len(doubles.Diff(a, b, true)) == 0 }

func TestC06Crash(t *testing.T) {
	vf.Run(t, "C06Crash", vf.Opts{Bubble: true, DefaultN: 10}, func(c *vf.Case) {
		peers := gen.Peers(c.Rng, 4)
		self := peers[0]
		ds := doubles.NewRecDS()
		f := newChanFix(c, ds, self)
		nch := 1 + c.Rng.Intn(4)
		type chInfo struct {
			chid datatransfer.ChannelID
			role role
			ref  []*doubles.StateView
			bc   blockCounter
		}
		var chs []*chInfo
		for i := 0; i < nch; i++ {
			r := gen.Pick(c.Rng, allRoles)
			v := gen.Voucher(c.Rng, fmt.Sprintf("VT%d", c.Rng.Intn(3)))
			chid, err := f.create(r, peers[1+c.Rng.Intn(3)], datatransfer.TransferID(c.Rng.Uint64()>>uint(c.Rng.Intn(64))), gen.Cid(c.Rng), v)
			if err != nil {
				continue // duplicate id: not this property
			}
			settle()
			chs = append(chs, &chInfo{chid: chid, role: r, ref: []*doubles.StateView{f.view(chid)}})
		}
		if len(chs) == 0 {
			return
		}
		nops := 10 + c.Rng.Intn(70)
		endW := c.Rng.Intn(6)
		var trace []string
		queries := 0
		// queries that land while a write of the channel's record is stalled inside the datastore:
		// whatever they return must already be in the write log when they return
		var qmu sync.Mutex
		type lateQ struct {
			v      *doubles.StateView
			logLen int
			chid   datatransfer.ChannelID
		}
		var lateQs []lateQ
		stalled, nput := 0, 0
		ds.SetHook(func(op, key string) error {
			if op != "put" || !strings.HasPrefix(key, "/3/") {
				return nil
			}
			qmu.Lock()
			nput++
			do := stalled < 12 && nput%3 == 0 // (no PRNG here: this runs on the state machine goroutine)
			var target *chInfo
			if do {
				for _, ch := range chs {
					if strings.HasSuffix(key, "/"+ch.chid.String()) {
						target = ch
					}
				}
				if target != nil {
					stalled++
				}
			}
			qmu.Unlock()
			if target == nil {
				return nil
			}
			done := make(chan struct{})
			go func() {
				defer close(done)
				st, err := f.cs.GetByID(bg, target.chid)
				if err != nil {
					return
				}
				v, _ := doubles.ViewOf(st)
				n := ds.LogLen()
				qmu.Lock()
				lateQs = append(lateQs, lateQ{v, n, target.chid})
				qmu.Unlock()
			}()
			// hold the write back with cooperative yields (never a virtual sleep: the state machine
			// group lock is held by callers waiting for this goroutine) until the query either
			// returned or has had ample opportunity to
			for i := 0; i < 400; i++ {
				select {
				case <-done:
					return nil
				default:
					doubles.Yield(1)
				}
			}
			return nil
		})
		for i := 0; i < nops; i++ {
			ch := gen.Pick(c.Rng, chs)
			op := genOp(c.Rng, &ch.bc, endW)
			op.Do(f.cs, ch.chid)
			trace = append(trace, op.Name)
			if c.Rng.Intn(5) == 0 {
				// query durability: whatever a state query returns must already be in the write log
				st, err := f.cs.GetByID(bg, ch.chid)
				if err == nil {
					v, p := doubles.ViewOf(st)
					probeC19(c, "GetByID", p)
					log := ds.Log()
					key := keyFor(log, ch.chid)
					found := false
					for j := len(log) - 1; j >= 0 && !found; j-- {
						if log[j].Key == key && !log[j].Del {
							if dv, err := recordToView(log[j].Val); err == nil && sameView(dv, v) {
								found = true
							}
						}
					}
					queries++
					if !found {
						c.Violation("C06", "query-not-durable", "GetByID returned a state that is in no write-log entry at return time: %s (after %s)", v, op.Name)
					}
				}
			}
			settle()
		}
		settle()
		ds.SetHook(nil)
		// boundary of the record encoding: an Error whose message is right at the 8192-byte string limit
		// (the message fits or just does not; the log line derived from it does or does not). Such an event
		// may fail to persist as a whole (DESIGN O1) - then it must leave the record exactly as it was; what
		// it must never do is persist half of itself. It is the channel's last event in this case.
		boundary := map[datatransfer.ChannelID]bool{}
		if c.Index%2 == 0 {
			var ch *chInfo
			for _, cand := range chs { // a channel that can still take an Error
				if v := f.view(cand.chid); v != nil && !isTerminal(v.Status) && !isCleanup(v.Status) {
					ch = cand
				}
			}
			if ch == nil { // all ended: a fresh one
				rl := gen.Pick(c.Rng, allRoles)
				chid, err := f.create(rl, peers[1], datatransfer.TransferID(c.Rng.Uint64()>>1|1<<62), gen.Cid(c.Rng), gen.Voucher(c.Rng, "VT0"))
				if err != nil {
					panic(err)
				}
				settle()
				ch = &chInfo{chid: chid, role: rl, ref: []*doubles.StateView{f.view(chid)}}
				chs = append(chs, ch)
			}
			n := 8140 + c.Rng.Intn(70)
			if c.Rng.Intn(2) == 0 {
				n = 8192 - c.Rng.Intn(30) // the message fits, a line that quotes it may not
			}
			m := strings.Repeat("x", n)
			pre := f.view(ch.chid)
			f.cs.Error(ch.chid, errors.New(m))
			settle()
			if post := f.view(ch.chid); pre != nil && post != nil {
				switch {
				case sameView(pre, post):
					c.Count("boundary_error_left_record_unchanged", 1)
				case post.Message == m:
					c.Count("boundary_error_applied", 1)
				}
				if isTerminal(pre.Status) || isCleanup(pre.Status) {
					c.Count("boundary_error_on_ended_channel", 1)
				}
			}
			boundary[ch.chid] = true
			trace = append(trace, fmt.Sprintf("Error(len %d)", len(m)))
			c.Count("boundary_length_errors", 1)
		}
		qmu.Lock()
		for _, q := range lateQs {
			log := ds.Log()[:q.logLen]
			key := keyFor(log, q.chid)
			found := false
			for j := len(log) - 1; j >= 0 && !found; j-- {
				if log[j].Key == key && !log[j].Del {
					if dv, err := recordToView(log[j].Val); err == nil && sameView(dv, q.v) {
						found = true
					}
				}
			}
			queries++
			c.Count("stalled_write_queries", 1)
			if !found {
				c.Violation("C06", "query-not-durable status="+q.v.Status.String(), "a query issued while a write was stalled returned a state that was in no write-log entry when it returned: %s", q.v)
			}
		}
		qmu.Unlock()
		// in-progress listing must be durable too
		if all, err := f.cs.InProgress(); err == nil {
			snap := ds.Snapshot()
			for chid, st := range all {
				v, p := doubles.ViewOf(st)
				probeC19(c, "InProgress", p)
				key := keyFor(ds.Log(), chid)
				if dv, err := recordToView(snap[key]); err != nil || !sameView(dv, v) {
					c.Violation("C06", "inprogress-not-durable", "InProgress state of %s differs from the stored record: %v", chid, doubles.Diff(dv, v, true))
				}
			}
		}
		// reference sequences: creation state + one snapshot per applied event (collapsed)
		statuses := map[datatransfer.Status]bool{}
		for _, ch := range chs {
			for _, e := range f.sub.For(ch.chid) {
				probeC19(c, "subscriber", e.Panic)
				if !sameView(ch.ref[len(ch.ref)-1], e.View) {
					ch.ref = append(ch.ref, e.View)
				}
				statuses[e.View.Status] = true
			}
		}
		f.stop()
		log := ds.Log()
		createdAt := map[datatransfer.ChannelID]int{}
		for _, ch := range chs {
			key := keyFor(log, ch.chid)
			for j, w := range log {
				if w.Key == key {
					createdAt[ch.chid] = j
					break
				}
			}
		}
		last := map[datatransfer.ChannelID]int{}
		cleanupResumed := 0
		for k := 1; k <= len(log); k++ {
			fresh := doubles.NewRecDSFrom(log[:k])
			f2 := newChanFix(c, fresh, self)
			all, err := f2.cs.InProgress()
			if err != nil {
				c.Violation("C06", "reopen-list-error", "crash point %d/%d (%s): InProgress: %v", k, len(log), log[k-1].Key, err)
				f2.stop()
				continue
			}
			c.Count("crash_points", 1)
			nexpected := 0
			for _, ch := range chs {
				st, present := all[ch.chid]
				should := createdAt[ch.chid] < k
				if should {
					nexpected++
				}
				if present != should {
					c.Violation("C06", "channel-presence", "crash point %d: channel %s present=%v, created-before-crash=%v", k, ch.chid, present, should)
					continue
				}
				if !present {
					continue
				}
				v, p := doubles.ViewOf(st)
				probeC19(c, "reopened", p)
				j := -1
				for x := last[ch.chid]; x < len(ch.ref); x++ {
					if sameView(ch.ref[x], v) {
						j = x
						break
					}
				}
				if j < 0 {
					// was it an earlier state (went backwards) or never current?
					back := -1
					for x := 0; x < last[ch.chid]; x++ {
						if sameView(ch.ref[x], v) {
							back = x
						}
					}
					if back >= 0 {
						c.Violation("C06", "state-went-backwards", "crash point %d shows state #%d after an earlier crash point showed #%d", k, back, last[ch.chid])
					} else {
						near := ch.ref[last[ch.chid]]
						c.Violation("C06", "state-never-current", "crash point %d (%s): reopened state was never current: %s ; differs from ref#%d in %v", k, log[k-1].Key, v, last[ch.chid], doubles.Diff(near, v, true))
					}
					continue
				}
				last[ch.chid] = j
				if k == len(log) && j != len(ch.ref)-1 && !boundary[ch.chid] {
					c.Violation("C06", "final-state-lost", "after the last write the reopened state is ref#%d of %d", j, len(ch.ref)-1)
				}
				// GetByID must agree with the listing
				if g := f2.view(ch.chid); g == nil || !sameView(g, v) {
					c.Violation("C06", "getbyid-vs-list", "crash point %d: GetByID and InProgress disagree after reopen", k)
				}
				// a channel persisted while cleaning up finishes cleanup when restarted
				if isCleanup(v.Status) && c.Rng.Intn(2) == 0 {
					want := v.Status + 1 // Completing->Completed, Failing->Failed, Cancelling->Cancelled
					f2.cs.CompleteCleanupOnRestart(ch.chid)
					settle()
					g := f2.view(ch.chid)
					ncl := 0
					for _, e := range f2.env.Calls() {
						if e.Op == "cleanup" && e.Chid == ch.chid {
							ncl++
						}
					}
					cleanupResumed++
					if g == nil || g.Status != want {
						c.Violation("C06", "cleanup-not-finished-on-restart", "channel persisted in %s did not reach %s after restart (is %v)", v.Status, want, g)
					} else if ncl != 1 {
						c.Violation("C06", "cleanup-count-on-restart", "channel persisted in %s ran cleanup %d times on restart", v.Status, ncl)
					}
				}
			}
			if len(all) != nexpected {
				c.Violation("C06", "extra-channels", "crash point %d lists %d channels, %d were created", k, len(all), nexpected)
			}
			f2.stop()
		}
		for s := range statuses {
			c.Mark("st=%s", s)
		}
		c.Mark("nch=%d", len(chs))
		c.Count("ops", nops)
		c.Count("queries", queries)
		c.Count("cleanup_resumed", cleanupResumed)
		c.Count("ref_states", func() int {
			n := 0
			for _, ch := range chs {
				n += len(ch.ref)
			}
			return n
		}())
		if len(log) > 4 {
			c.NonTrivial()
		}
		if c.Index < 2 {
			c.Sample(map[string]any{"channels": len(chs), "ops": trace, "write_log_len": len(log), "crash_points": len(log)})
		}
	})
}

// TestC06Mgr: manager level. A channel is driven to a terminal status through the real manager;
// then the manager is reopened on EVERY prefix of the write log: the listed channels are exactly
// those created, and a channel found in a cleanup status finishes cleanup when it is restarted
// through the public API (RestartDataTransferChannel).
func TestC06Mgr(t *testing.T) {
	vf.Run(t, "C06Mgr", vf.Opts{Bubble: true, DefaultN: 24}, func(c *vf.Case) {
		r := c.Rng
		rl := allRoles[c.Index%4]
		term := terminals[(c.Index/4)%3]
		variant := c.Index / 12
		peers := gen.Peers(r, 2)
		self, other := peers[0], peers[1]
		f := newMgrFix(c, self, nil)
		v := gen.Voucher(r, "VT0")
		var chid datatransfer.ChannelID
		if rl.Initiator {
			var err error
			chid, err = f.open(rl.Pull, other, v, dummyCid)
			if err != nil {
				panic(err)
			}
			settle()
		} else {
			chid = f.mkResponder(rl.Pull, other, datatransfer.TransferID(1+r.Intn(1000)), v)
		}
		// some progress so that the states differ
		if r.Intn(2) == 0 {
			f.tp.Events().OnTransferInitiated(chid)
			f.tp.Events().OnDataReceived(chid, dummyLink, 100, 1, true)
			f.tp.Events().OnDataQueued(chid, dummyLink, 100, 1, true)
			settle()
		}
		mgrToTerminal(f, chid, rl, term, variant)
		if vv := f.view(chid); vv == nil || vv.Status != term {
			c.Violation("C06", "route-did-not-terminate", "manager route to %s for %s ended in %v", term, rl, vv)
			f.stop()
			return
		}
		f.stop()
		log := f.ds.Log()
		key := keyFor(log, chid)
		created := -1
		for j, w := range log {
			if w.Key == key {
				created = j
				break
			}
		}
		restarted := 0
		for k := 1; k <= len(log); k++ {
			f2 := newMgrFix(c, self, doubles.NewRecDSFrom(log[:k]))
			all, err := f2.m.InProgressChannels(bg)
			if err != nil {
				c.Violation("C06", "reopen-list-error", "crash point %d: InProgressChannels: %v", k, err)
				f2.stop()
				continue
			}
			c.Count("crash_points", 1)
			_, present := all[chid]
			if present != (created >= 0 && created < k) {
				c.Violation("C06", "channel-presence", "crash point %d: channel present=%v, created at write %d", k, present, created)
			}
			if present {
				vv := f2.view(chid)
				if vv != nil && isCleanup(vv.Status) {
					want := vv.Status + 1
					err := f2.m.RestartDataTransferChannel(bg, chid)
					settle()
					after := f2.view(chid)
					restarted++
					if err != nil || after == nil || after.Status != want {
						c.Violation("C06", fmt.Sprintf("cleanup-not-finished-on-restart %s", vv.Status), "crash point %d: %s channel persisted in %s: RestartDataTransferChannel err=%v, now %v, want %s", k, rl, vv.Status, err, after, want)
					}
					if n := doubles.CountOp(f2.tp.Calls(), "cleanup", chid); n != 1 && err == nil {
						c.Violation("C06", fmt.Sprintf("cleanup-count-on-restart %d", n), "channel persisted in %s: transport cleanup ran %d times on restart", vv.Status, n)
					}
				}
			}
			f2.stop()
		}
		c.Count("cleanup_resumed", restarted)
		c.Mark("role=%s term=%s variant=%d restarted=%d", rl, term, variant%2, restarted)
		c.NonTrivial()
		if c.Index < 1 {
			c.Sample(map[string]any{"level": "manager", "role": rl.String(), "terminal": term.String(), "write_log_len": len(log), "restarted_from_cleanup": restarted})
		}
	})
}
