package chk

import (
	"errors"
	"fmt"
	"sort"
	"strings"
	"sync"
	"testing"
	"time"

	datatransfer "github.com/filecoin-project/go-data-transfer/v2"

	"verif/harness/internal/doubles"
	"verif/harness/internal/gen"
	"verif/harness/internal/vf"
)

// ---- C07: transfer accounting counts every block position once -----------------------------

type pos struct {
	Size   uint64
	Unique bool
}

type dirSpec struct {
	name     string
	evt      datatransfer.EventCode
	progress datatransfer.EventCode
}

var dirs = []dirSpec{
	{"queued", datatransfer.DataQueued, datatransfer.DataQueuedProgress},
	{"sent", datatransfer.DataSent, datatransfer.DataSentProgress},
	{"received", datatransfer.DataReceived, datatransfer.DataReceivedProgress},
}

func report(f *chanFix, d int, chid datatransfer.ChannelID, p int, ps pos) error {
	root := dummyCid
	switch d {
	case 0:
		return f.cs.DataQueued(chid, root, ps.Size, int64(p), ps.Unique)
	case 1:
		return f.cs.DataSent(chid, root, ps.Size, int64(p), ps.Unique)
	default:
		return f.cs.DataReceived(chid, root, ps.Size, int64(p), ps.Unique)
	}
}

func totals(v *doubles.StateView, d int) (uint64, int64) {
	switch d {
	case 0:
		return v.Queued, v.QueuedIdx
	case 1:
		return v.Sent, v.SentIdx
	default:
		return v.Received, v.RecvIdx
	}
}

// genTraversal makes positions 1..n; sizes are unique per position (size mod 4096 == position)
// so that every progress delta identifies the position it came from.
func genTraversal(c *vf.Case, n int) []pos {
	ps := make([]pos, n+1)
	for i := 1; i <= n; i++ {
		k := uint64(c.Rng.Intn(200))
		if c.Rng.Intn(8) == 0 {
			k = uint64(c.Rng.Intn(256)) * 1024 // up to ~1 GiB blocks
		}
		ps[i] = pos{Size: k*4096 + uint64(i), Unique: c.Rng.Intn(4) != 0}
	}
	return ps
}

// TestC07Seq: sequential traversal-shaped report sequences with replays and reopen points;
// exact equality with a running-sum model after every report.
func TestC07Seq(t *testing.T) {
	vf.Run(t, "C07Seq", vf.Opts{Bubble: true, DefaultN: 20}, func(c *vf.Case) {
		r := gen.Pick(c.Rng, allRoles)
		peers := gen.Peers(c.Rng, 2)
		f := newChanFix(c, nil, peers[0])
		chid, err := f.create(r, peers[1], datatransfer.TransferID(c.Rng.Uint64()), dummyCid, gen.SimpleVoucher("T", "v"))
		if err != nil {
			panic(err)
		}
		f.toOngoing(chid, r)
		if c.Rng.Intn(4) == 0 { // a limit changes return values, never the accounting
			f.cs.SetDataLimit(chid, uint64(c.Rng.Intn(1<<20)+1))
		}
		n := 3 + c.Rng.Intn(40)
		var trav [3][]pos
		var next [3]int     // next first-time position per direction
		var total [3]uint64 // model
		var index [3]int64
		var seen [3]map[int]bool
		for d := range trav {
			trav[d] = genTraversal(c, n)
			next[d] = 1
			seen[d] = map[int]bool{}
		}
		steps := 10 + c.Rng.Intn(120)
		reopens, replays, reports := 0, 0, 0
		var prev *doubles.StateView
		check := func(where string) {
			v := f.view(chid)
			if v == nil {
				c.Violation("C07", "state-missing", "%s: channel not found", where)
				return
			}
			for d := range dirs {
				gt, gi := totals(v, d)
				if gt != total[d] {
					c.Violation("C07", "total-mismatch "+dirs[d].name, "%s: %s total=%d model=%d (role %s)", where, dirs[d].name, gt, total[d], r)
				}
				if gi != index[d] {
					c.Violation("C07", "index-mismatch "+dirs[d].name, "%s: %s index=%d model=%d", where, dirs[d].name, gi, index[d])
				}
				if prev != nil {
					pt, pi := totals(prev, d)
					if gt < pt || gi < pi {
						c.Violation("C07", "decrease "+dirs[d].name, "%s: %s went from (%d,%d) to (%d,%d)", where, dirs[d].name, pt, pi, gt, gi)
					}
				}
			}
			prev = v
		}
		for s := 0; s < steps && c.Violations() == 0; s++ {
			d := c.Rng.Intn(3)
			x := c.Rng.Intn(10)
			switch {
			case x == 0 && s > 0: // reopen: new Channels on the same datastore, cold caches
				f = f.reopen()
				reopens++
				if c.Rng.Intn(2) == 0 && next[d] <= n {
					// a one-off datastore read error hits the first report of the new lifetime: that report
					// fails (and counts for nothing); nothing that follows may be counted twice because of it
					failed := false
					// Only the report's FIRST read (the existence check) is failed. A failure of a later read - the
					// load of the state machine - is outside what C07 quantifies over (sequences, replays,
					// interleavings, process restarts; no I/O faults), and the unchanged library itself loses the
					// event or wedges that channel's state machine there (DESIGN O6).
					skip := 0
					f.ds.SetHook(func(op, key string) error {
						if (op == "has" || op == "get") && !failed && strings.HasPrefix(key, "/3/") {
							if skip > 0 {
								skip--
								return nil
							}
							failed = true
							return errors.New("injected: datastore hiccup")
						}
						return nil
					})
					p := next[d]
					err := report(f, d, chid, p, trav[d][p])
					f.ds.SetHook(nil)
					settle()
					reports++
					if failed {
						c.Count("reports_hit_by_datastore_error", 1)
					}
					if err == nil || errors.Is(err, datatransfer.ErrPause) {
						// the report went through after all (the error hit nothing it needed): it counts
						if trav[d][p].Unique && !seen[d][p] {
							total[d] += trav[d][p].Size
						}
						seen[d][p] = true
						if int64(p) > index[d] {
							index[d] = int64(p)
						}
						next[d]++
					} else if next[d] > 1 && c.Rng.Intn(2) == 0 {
						// ... and the transport, which saw its report fail, replays what it had already sent
						lo := 1 + c.Rng.Intn(next[d]-1)
						hi := lo + c.Rng.Intn(next[d]-lo)
						for q := lo; q <= hi; q++ {
							report(f, d, chid, q, trav[d][q])
							reports++
							if int64(q) > index[d] {
								index[d] = int64(q)
							}
						}
						replays++
						settle()
						c.Count("replays_right_after_failed_report", 1)
					}
				}
				check(fmt.Sprintf("step %d after reopen", s))
				continue
			case x <= 2 && next[d] > 1: // replay an earlier range verbatim
				lo := 1 + c.Rng.Intn(next[d]-1)
				hi := lo + c.Rng.Intn(next[d]-lo)
				for p := lo; p <= hi; p++ {
					report(f, d, chid, p, trav[d][p])
					reports++
					if int64(p) > index[d] {
						index[d] = int64(p)
					}
				}
				replays++
				settle()
			default:
				if next[d] > n {
					continue
				}
				p := next[d]
				next[d]++
				err := report(f, d, chid, p, trav[d][p])
				reports++
				if err != nil && !errors.Is(err, datatransfer.ErrPause) {
					c.Violation("C07", "report-error "+dirs[d].name, "report %s pos %d: %v", dirs[d].name, p, err)
				}
				if trav[d][p].Unique && !seen[d][p] {
					total[d] += trav[d][p].Size
				}
				seen[d][p] = true
				if int64(p) > index[d] {
					index[d] = int64(p)
				}
				settle()
			}
			check(fmt.Sprintf("step %d dir %s", s, dirs[d].name))
		}
		c.Mark("role=%s reopens=%v replays=%v", r, reopens > 0, replays > 0)
		c.Mark("nz=%v,%v,%v", total[0] > 0, total[1] > 0, total[2] > 0)
		c.Mark("steps=%d n=%d", steps/10, n/5)
		c.Count("reports", reports)
		c.Count("reopens", reopens)
		c.Count("replays", replays)
		if reports > 3 && (total[0]+total[1]+total[2]) > 0 {
			c.NonTrivial()
		}
		if c.Index < 3 {
			c.Sample(map[string]any{"role": r.String(), "positions": n, "reports": reports, "reopens": reopens, "replay_ranges": replays,
				"final": fmt.Sprintf("queued=%d/%d sent=%d/%d received=%d/%d", total[0], index[0], total[1], index[1], total[2], index[2])})
		}
		f.stop()
	})
}

type repRec struct {
	Dir       int
	Pos       int
	Call, Ret int64
}

// TestC07Conc: concurrent reporters with overlapping ranges; conservation and order only.
func TestC07Conc(t *testing.T) {
	vf.Run(t, "C07Conc", vf.Opts{Bubble: true, DefaultN: 20}, func(c *vf.Case) {
		r := gen.Pick(c.Rng, allRoles)
		peers := gen.Peers(c.Rng, 2)
		ds := doubles.NewRecDS()
		f := newChanFix(c, ds, peers[0])
		chid, _ := f.create(r, peers[1], datatransfer.TransferID(c.Rng.Uint64()), dummyCid, gen.SimpleVoucher("T", "v"))
		f.toOngoing(chid, r)
		n := 5 + c.Rng.Intn(40)
		var trav [3][]pos
		for d := range trav {
			trav[d] = genTraversal(c, n)
		}
		// optional warm-up prefix then reopen, so the lazy cache seeding races with reporters
		if c.Rng.Intn(2) == 0 {
			k := 1 + c.Rng.Intn(n/2+1)
			for d := range dirs {
				for p := 1; p <= k; p++ {
					report(f, d, chid, p, trav[d][p])
				}
			}
			settle()
			f = f.reopen()
		}
		base := f.view(chid)
		baseEvents := 0
		// perturb the datastore reads (cooperative yields, never a virtual sleep: the cache lock is
		// held across the read) so that lazy cache seeding overlaps with other reporters
		stallGet := c.Rng.Intn(2) == 0
		if stallGet {
			ds.SetHook(func(op, key string) error {
				if op == "get" {
					doubles.Yield(50)
				}
				return nil
			})
		}
		workers := 2 + c.Rng.Intn(7)
		var mu sync.Mutex
		var recs []repRec
		var fns []func()
		for w := 0; w < workers; w++ {
			d := c.Rng.Intn(3)
			lo := 1 + c.Rng.Intn(n)
			hi := lo + c.Rng.Intn(n-lo+1)
			// each worker reports its own range in increasing order, ranges overlap across workers;
			// some workers shuffle (not traversal shaped: conservation only is asserted anyway)
			order := make([]int, 0, hi-lo+1)
			for p := lo; p <= hi; p++ {
				order = append(order, p)
			}
			if c.Rng.Intn(4) == 0 {
				c.Rng.Shuffle(len(order), func(i, j int) { order[i], order[j] = order[j], order[i] })
			}
			delay := time.Duration(c.Rng.Intn(3)) * time.Millisecond
			fns = append(fns, func() {
				for _, p := range order {
					call := doubles.NextSeq()
					report(f, d, chid, p, trav[d][p])
					ret := doubles.NextSeq()
					mu.Lock()
					recs = append(recs, repRec{d, p, call, ret})
					mu.Unlock()
					if delay > 0 {
						time.Sleep(delay)
					}
				}
			})
		}
		waitGroupGo(fns...)
		ds.SetHook(nil)
		settle()
		final := f.view(chid)
		evs := f.sub.Events()[baseEvents:]
		for d := range dirs {
			bt, bi := totals(base, d)
			ft, fi := totals(final, d)
			// (i) progress deltas: no duplicate position; (ii) final total = base + sum of deltas
			seen := map[int]bool{}
			var sum uint64
			// reconstruct deltas from consecutive snapshots of this direction's total
			prevT := bt
			for _, e := range evs {
				t, _ := totals(e.View, d)
				if t < prevT {
					c.Violation("C07", "decrease "+dirs[d].name, "concurrent: %s total went %d -> %d", dirs[d].name, prevT, t)
				}
				if e.Code == dirs[d].progress {
					delta := t - prevT
					p := int(delta % 4096)
					if p < 1 || p > n || trav[d][p].Size != delta {
						c.Violation("C07", "alien-delta "+dirs[d].name, "progress delta %d matches no reported position", delta)
					} else {
						if seen[p] {
							c.Violation("C07", "position-counted-twice "+dirs[d].name, "position %d (size %d) counted twice under concurrent reports", p, delta)
						}
						if !trav[d][p].Unique {
							c.Violation("C07", "nonunique-counted "+dirs[d].name, "non-unique position %d increased the total", p)
						}
						seen[p] = true
						sum += delta
					}
				} else if t != prevT {
					c.Violation("C07", "total-changed-by-other-event "+dirs[d].name, "event %s changed %s total %d -> %d", e.Code, dirs[d].name, prevT, t)
				}
				prevT = t
			}
			if ft != bt+sum {
				c.Violation("C07", "conservation "+dirs[d].name, "final %s total %d != base %d + advancing deltas %d", dirs[d].name, ft, bt, sum)
			}
			// (iii) final index = max reported
			maxp := bi
			for _, rr := range recs {
				if rr.Dir == d && int64(rr.Pos) > maxp {
					maxp = int64(rr.Pos)
				}
			}
			if fi != maxp {
				c.Violation("C07", "index-mismatch "+dirs[d].name, "concurrent: final %s index %d != max reported %d", dirs[d].name, fi, maxp)
			}
			// (iv) real-time order: a unique report above the base index whose position exceeds every
			// position whose report had started before it returned must be among the advancing ones
			for _, rr := range recs {
				if rr.Dir != d || !trav[d][rr.Pos].Unique || int64(rr.Pos) <= bi || seen[rr.Pos] {
					continue
				}
				must := true
				for _, o := range recs {
					if o.Dir == d && o != rr && o.Pos >= rr.Pos && o.Call < rr.Ret {
						must = false
						break
					}
				}
				if must {
					c.Violation("C07", "lost-progress "+dirs[d].name, "unique position %d was reported with no competing report at or above it, yet never counted", rr.Pos)
				}
			}
			c.Count("advancing_"+dirs[d].name, len(seen))
		}
		// distinct interleavings observed: order of returns across workers
		sort.Slice(recs, func(i, j int) bool { return recs[i].Ret < recs[j].Ret })
		il := ""
		for i, rr := range recs {
			if i < 24 {
				il += fmt.Sprintf("%d:%d,", rr.Dir, rr.Pos)
			}
		}
		c.Mark("il=%s", il)
		c.Mark("role=%s workers=%d stall=%v", r, workers, stallGet)
		c.Count("reports", len(recs))
		c.Count("workers", workers)
		if len(recs) > 4 {
			c.NonTrivial()
		}
		if c.Index < 2 {
			c.Sample(map[string]any{"role": r.String(), "workers": workers, "positions": n, "reports": len(recs), "stalled_gets": stallGet,
				"final": final.String()})
		}
		f.stop()
	})
}
