package chk

import (
	"bytes"
	"fmt"
	"math"
	"math/rand"
	"sort"
	"sync"
	"testing"

	"github.com/ipfs/go-datastore"
	"github.com/libp2p/go-libp2p/core/peer"

	datatransfer "github.com/filecoin-project/go-data-transfer/v2"
	"github.com/filecoin-project/go-data-transfer/v2/channels"
	dtimpl "github.com/filecoin-project/go-data-transfer/v2/impl"

	"verif/harness/internal/cborx"
	"verif/harness/internal/doubles"
	"verif/harness/internal/gen"
	"verif/harness/internal/vf"
)

// ---- C13: stored channels survive schema migration ------------------------------------------

func bigU(r *rand.Rand) uint64 {
	switch r.Intn(5) {
	case 0:
		return 0
	case 1:
		return math.MaxUint64
	case 2:
		return uint64(r.Intn(1 << 20))
	default:
		return r.Uint64()
	}
}

// genV2 makes one well-formed version-2 record (as a cborx map) and the version-3 record the
// migration should produce for it.
func genV2(r *rand.Rand, self peer.ID, others []peer.ID, status datatransfer.Status) (datatransfer.ChannelID, cborx.M, cborx.M) {
	rl := gen.Pick(r, allRoles)
	other := gen.Pick(r, others)
	ini, rsp := self, other
	if !rl.Initiator {
		ini, rsp = other, self
	}
	snd, rcp := ini, rsp
	if rl.Pull {
		snd, rcp = rsp, ini
	}
	tid := r.Uint64() >> uint(r.Intn(64))
	chid := datatransfer.ChannelID{Initiator: ini, Responder: rsp, ID: datatransfer.TransferID(tid)}
	nv := 1 + r.Intn(5)
	vs := cborx.L{}
	for i := 0; i < nv; i++ {
		vs = append(vs, cborx.M{"Type": fmt.Sprintf("VT%d", r.Intn(4)), "Voucher": cborx.FromPlain(gen.Plain(r, 2))})
	}
	rs := cborx.L{}
	for i := 0; i < r.Intn(6); i++ {
		rs = append(rs, cborx.M{"Type": fmt.Sprintf("RT%d", r.Intn(4)), "VoucherResult": cborx.FromPlain(gen.Plain(r, 2))})
	}
	var stages any
	if r.Intn(6) != 0 {
		list := cborx.L{}
		for i := 0; i < r.Intn(7); i++ {
			logs := cborx.L{}
			for j := 0; j < r.Intn(11); j++ {
				logs = append(logs, cborx.L{fmt.Sprintf("log %d-%d", i, j), int64(r.Int63n(1 << 60))})
			}
			list = append(list, cborx.L{datatransfer.Statuses[datatransfer.Status(r.Intn(19))], randMsg(r), int64(r.Int63n(1 << 60)), int64(r.Int63n(1 << 60)), logs})
		}
		stages = cborx.L{list}
	}
	var sel any = cborx.FromPlain(gen.Plain(r, 2))
	// the SelfPeer a record was written with is a stored field of its own: after a key rotation or a
	// restored backup it differs from the identity the module runs under now (and may be neither party)
	storedSelf := self
	if r.Intn(6) == 0 {
		storedSelf = others[len(others)-1]
	}
	v2 := cborx.M{
		"SelfPeer": cborx.Txt(storedSelf), "TransferID": tid, "Initiator": cborx.Txt(ini), "Responder": cborx.Txt(rsp),
		"BaseCid": gen.Cid(r), "Selector": sel, "Sender": cborx.Txt(snd), "Recipient": cborx.Txt(rcp),
		"TotalSize": bigU(r), "Status": uint64(status), "Queued": bigU(r), "Sent": bigU(r), "Received": bigU(r),
		"Message": randMsg(r), "Vouchers": vs, "VoucherResults": rs,
		"ReceivedBlocksTotal": r.Int63n(1 << 40), "QueuedBlocksTotal": r.Int63n(1 << 40), "SentBlocksTotal": r.Int63(),
		"DataLimit": bigU(r), "RequiresFinalization": r.Intn(2) == 0, "Stages": stages,
	}
	if r.Intn(4) == 0 {
		v2["Message"] = ""
	}
	v3 := cborx.M{}
	for k, v := range v2 {
		v3[k] = v
	}
	ip := status == datatransfer.InitiatorPaused || status == datatransfer.BothPaused
	rp := status == datatransfer.ResponderPaused || status == datatransfer.BothPaused
	if ip || rp {
		v3["Status"] = uint64(datatransfer.Ongoing)
	}
	v3["InitiatorPaused"], v3["ResponderPaused"] = ip, rp
	return chid, v2, v3
}

func snapEqual(a, b map[string][]byte) (string, bool) {
	if len(a) != len(b) {
		return fmt.Sprintf("key count %d vs %d", len(a), len(b)), false
	}
	for k, v := range a {
		if !bytes.Equal(v, b[k]) {
			return "value of " + k, false
		}
	}
	return "", true
}

func TestC13Migrate(t *testing.T) {
	vf.Run(t, "C13Migrate", vf.Opts{Bubble: true, DefaultN: 10}, func(c *vf.Case) {
		peers := gen.Peers(c.Rng, 4)
		self := peers[0]
		n := 1 + c.Rng.Intn(40)
		if c.Index%5 == 0 {
			n = 19
		}
		corrupt := c.Rng.Intn(8) == 0
		ds := doubles.NewRecDS()
		seed := map[string][]byte{"/versions/current": []byte("2")}
		expect := map[datatransfer.ChannelID]*doubles.StateView{}
		expectRaw := map[datatransfer.ChannelID]cborx.M{} // the version-3 record each version-2 record must become, field by field
		var order []datatransfer.ChannelID
		for i := 0; i < n; i++ {
			st := datatransfer.Status(c.Rng.Intn(19))
			if i < 19 {
				st = datatransfer.Status((i + c.Index) % 19) // every status value appears
			}
			chid, v2, v3 := genV2(c.Rng, self, peers[1:], st)
			if _, dup := expect[chid]; dup {
				continue
			}
			seed["/2/"+chid.String()] = cborx.Encode(v2)
			ev, err := recordToView(cborx.Encode(v3))
			if err != nil {
				panic(err)
			}
			expect[chid] = ev
			expectRaw[chid] = v3
			order = append(order, chid)
			c.Mark("status=%s", st)
		}
		if corrupt {
			seed["/2/"+order[0].String()] = []byte{0xa1, 0x63, 'f', 'o', 'o'} // truncated map
		}
		load := func(d *doubles.RecDS) {
			for k, v := range seed {
				d.Put(bg, datastore.NewKey(k), v)
			}
		}
		load(ds)
		baseLog := ds.LogLen()

		// ---------------- channels level ----------------
		env := doubles.NewRecEnv(self)
		sub := &doubles.SubLog{}
		cs, err := channels.New(ds, channels.Notifier(sub.Fn()), env, self)
		if err != nil {
			panic(err)
		}
		refused := 0
		attempt := func(when string) {
			before := ds.LogLen()
			probe := order[c.Rng.Intn(len(order))]
			errs := []error{}
			_, e1 := cs.GetByID(bg, probe)
			_, e2 := cs.InProgress()
			_, e3 := cs.HasChannel(probe)
			e4 := cs.Accept(probe)
			e5 := cs.DataReceived(probe, dummyCid, 10, 1, true)
			_, e6 := cs.CreateNew(self, 99, dummyCid, gen.AllSelector, gen.SimpleVoucher("T", "x"), self, self, peers[1])
			e7 := cs.Cancel(probe)
			errs = append(errs, e1, e2, e3, e4, e5, e6, e7)
			for i, e := range errs {
				if e == nil {
					c.Violation("C13", "operation-before-ready", "%s: channel operation #%d succeeded before migration finished", when, i+1)
				} else {
					refused++
				}
			}
			if when == "before-start" && ds.LogLen() != before {
				c.Violation("C13", "write-before-ready", "%s: a refused operation wrote to the datastore", when)
			}
		}
		attempt("before-start")
		// during migration: API attempts from inside the datastore double while records are being written
		var amu sync.Mutex
		during := 0
		ds.SetHook(func(op, key string) error {
			if op == "put" && len(key) > 3 && key[:3] == "/3/" {
				amu.Lock()
				do := during < 3
				during++
				amu.Unlock()
				if do {
					attempt("during-migration")
				}
			}
			return nil
		})
		startErr := cs.Start(bg)
		ds.SetHook(nil)
		settle()
		if corrupt {
			if startErr == nil {
				c.Violation("C13", "corrupt-store-start-ok", "Start returned nil although a stored record is undecodable")
			}
			if _, err := cs.GetByID(bg, order[len(order)-1]); err == nil {
				c.Violation("C13", "operation-after-failed-migration", "channel operation succeeded after a failed migration")
			}
			c.Count("corrupt_stores", 1)
		} else {
			if startErr != nil {
				c.Violation("C13", "migration-error", "Start: %v", startErr)
				return
			}
			all, err := cs.InProgress()
			if err != nil {
				c.Violation("C13", "list-error", "InProgress after migration: %v", err)
				return
			}
			if len(all) != len(order) {
				c.Violation("C13", "channel-count", "%d channels after migration, %d records stored", len(all), len(order))
			}
			for _, chid := range order {
				st, ok := all[chid]
				if !ok {
					c.Violation("C13", "channel-missing", "channel %s missing after migration", chid)
					continue
				}
				v, p := doubles.ViewOf(st)
				probeC19(c, "migrated", p)
				if d := doubles.Diff(expect[chid], v, true); len(d) > 0 {
					c.Violation("C13", "field-changed "+fmt.Sprint(d), "migrated channel differs from its v2 record in %v\n want %s\n got  %s", d, expect[chid], v)
				}
				// ... and the stored version-3 record itself, field by field (what the accessors derive from it
				// later - pause flags after the channel leaves its status, stage times - depends on the raw fields)
				if raw, err := cborx.Decode(ds.Snapshot()["/3/"+chid.String()]); err == nil {
					if rm, ok := raw.(map[string]any); ok {
						var diff []string
						for k, want := range expectRaw[chid] {
							if got, has := rm[k]; !has || !bytes.Equal(cborx.Encode(got), cborx.Encode(want)) {
								diff = append(diff, k)
							}
						}
						for k := range rm {
							if _, has := expectRaw[chid][k]; !has {
								diff = append(diff, "+"+k)
							}
						}
						sort.Strings(diff)
						if len(diff) > 0 {
							c.Violation("C13", "stored-field-changed "+fmt.Sprint(diff), "the stored version-3 record of a migrated channel (v2 status %v) differs from its version-2 record in raw field(s) %v", expect[chid].Status, diff)
						}
						c.Count("raw_records_compared", 1)
					}
				}
				c.Count("records", 1)
			}
			// a second start on the migrated store changes nothing
			cs.Stop(bg)
			settle()
			before := ds.Snapshot()
			for rep := 0; rep < 1+c.Rng.Intn(2); rep++ {
				cs2, _ := channels.New(ds, channels.Notifier(sub.Fn()), env, self)
				if err := cs2.Start(bg); err != nil {
					c.Violation("C13", "restart-error", "start on migrated store: %v", err)
				}
				settle()
				cs2.Stop(bg)
				settle()
			}
			if what, ok := snapEqual(before, ds.Snapshot()); !ok {
				c.Violation("C13", "restart-changed-store", "starting again on a migrated store changed %s", what)
			}
			// migrated channels accept further events and persist like native ones
			cs3, _ := channels.New(ds, channels.Notifier(sub.Fn()), env, self)
			cs3.Start(bg)
			followups := 0
			for i := 0; i < 6; i++ {
				chid := order[c.Rng.Intn(len(order))]
				if isTerminal(expect[chid].Status) || isCleanup(expect[chid].Status) {
					continue
				}
				prev, _ := cs3.GetByID(bg, chid)
				pv, _ := doubles.ViewOf(prev)
				nb := len(sub.For(chid))
				var bc blockCounter
				bc.q, bc.s, bc.r = pv.QueuedIdx, pv.SentIdx, pv.RecvIdx
				var op evOp
				switch c.Rng.Intn(4) {
				case 0:
					v := gen.Voucher(c.Rng, "VT9")
					op = evOp{"NewVoucher", datatransfer.NewVoucher, "", func(cs *channels.Channels, ch datatransfer.ChannelID) error { return cs.NewVoucher(ch, v) }}
				case 1:
					op = evOp{"Disconnected", datatransfer.Disconnected, "", func(cs *channels.Channels, ch datatransfer.ChannelID) error {
						return cs.Disconnected(ch, fmt.Errorf("follow-up %d", i))
					}}
				case 2:
					lim := uint64(c.Rng.Intn(1000) + 1)
					op = evOp{"SetDataLimit", datatransfer.SetDataLimit, "", func(cs *channels.Channels, ch datatransfer.ChannelID) error { return cs.SetDataLimit(ch, lim) }}
				default:
					op = evOp{"Restart", datatransfer.Restart, "", func(cs *channels.Channels, ch datatransfer.ChannelID) error { return cs.Restart(ch) }}
				}
				if err := op.Do(cs3, chid); err != nil {
					c.Violation("C13", "migrated-refuses-event "+op.Name, "migrated channel in %s refused %s: %v", pv.Status, op.Name, err)
					continue
				}
				settle()
				evs := sub.For(chid)
				if len(evs) != nb+1 || evs[len(evs)-1].Code != op.Code {
					c.Violation("C13", "migrated-event-not-applied "+op.Name, "event %s on migrated channel (status %s) produced %d notifications", op.Name, pv.Status, len(evs)-nb)
					continue
				}
				now, _ := cs3.GetByID(bg, chid)
				nv, _ := doubles.ViewOf(now)
				key := "/3/" + chid.String()
				dv, err := recordToView(ds.Snapshot()[key])
				if err != nil || !sameView(dv, nv) {
					c.Violation("C13", "migrated-persist-mismatch", "after %s the stored record and the presented state differ: %v %v", op.Name, err, doubles.Diff(dv, nv, true))
				}
				followups++
			}
			cs3.Stop(bg)
			settle()
			c.Count("followups", followups)
		}
		c.Count("refused_ops", refused)
		c.Count("during_attempts", during)
		_ = baseLog

		// ---------------- manager level: readiness announcement ----------------
		ds2 := doubles.NewRecDS()
		load(ds2)
		net := doubles.NewRecNet(self)
		tp := doubles.NewRecTransport()
		m, err := dtimpl.NewDataTransfer(ds2, net, tp)
		if err != nil {
			panic(err)
		}
		nl := 1 + c.Rng.Intn(3)
		var rmu sync.Mutex
		calls := make([][]error, nl)
		for i := 0; i < nl; i++ {
			i := i
			m.OnReady(func(e error) { rmu.Lock(); calls[i] = append(calls[i], e); rmu.Unlock() })
		}
		// before Start nothing is ready: queries are refused
		if _, err := m.ChannelState(bg, order[0]); err == nil {
			c.Violation("C13", "manager-operation-before-ready", "ChannelState succeeded before Start")
		}
		if err := m.Start(bg); err != nil {
			panic(err)
		}
		settle()
		rmu.Lock()
		for i, cl := range calls {
			if len(cl) != 1 {
				c.Violation("C13", "ready-announced-not-once", "listener %d registered before Start was called %d times", i, len(cl))
			} else if (cl[0] != nil) != corrupt {
				c.Violation("C13", "ready-wrong-outcome", "listener got %v, corrupt store=%v", cl[0], corrupt)
			}
		}
		rmu.Unlock()
		if !corrupt {
			all, err := m.InProgressChannels(bg)
			if err != nil || len(all) != len(order) {
				c.Violation("C13", "manager-channel-count", "manager lists %d channels (err %v), %d stored", len(all), err, len(order))
			}
			ids := append([]datatransfer.ChannelID(nil), order...)
			sort.Slice(ids, func(i, j int) bool { return ids[i].String() < ids[j].String() })
			for _, chid := range ids[:min(len(ids), 5)] {
				st, err := m.ChannelState(bg, chid)
				if err != nil {
					c.Violation("C13", "manager-channel-missing", "ChannelState(%s): %v", chid, err)
					continue
				}
				v, p := doubles.ViewOf(st)
				probeC19(c, "manager-migrated", p)
				if d := doubles.Diff(expect[chid], v, true); len(d) > 0 {
					c.Violation("C13", "field-changed "+fmt.Sprint(d), "manager view of migrated channel differs in %v", d)
				}
			}
		}
		m.Stop(bg)
		settle()
		c.Mark("n=%d corrupt=%v", n/8, corrupt)
		c.NonTrivial()
		if c.Index < 2 {
			_, v2, _ := genV2(c.Rng, self, peers[1:], datatransfer.BothPaused)
			c.Sample(map[string]any{"records": len(order), "corrupt": corrupt, "example_v2_record_hex": fmt.Sprintf("%x", cborx.Encode(v2))[:600]})
		}
	})
}
