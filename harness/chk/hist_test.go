package chk

import (
	"errors"
	"fmt"
	"math/rand"
	"strings"

	datatransfer "github.com/filecoin-project/go-data-transfer/v2"
	"github.com/filecoin-project/go-data-transfer/v2/channels"

	"verif/harness/internal/gen"
)

// evOp is one call of the channels API that fires (at most) one event code.
type evOp struct {
	Name string
	Code datatransfer.EventCode
	Arg  string // rendered argument, for samples/replays
	Do   func(cs *channels.Channels, chid datatransfer.ChannelID) error
}

// class of an event code as the property statements name them (C03).
const (
	clsLifecycle   = "lifecycle"
	clsBookkeeping = "bookkeeping"
	clsEnding      = "ending"
)

var eventClass = map[datatransfer.EventCode]string{
	datatransfer.Open: clsLifecycle, datatransfer.Accept: clsLifecycle, datatransfer.TransferInitiated: clsLifecycle,
	datatransfer.FinishTransfer: clsLifecycle, datatransfer.ResponderCompletes: clsLifecycle,
	datatransfer.ResponderBeginsFinalization: clsLifecycle, datatransfer.BeginFinalizing: clsLifecycle,
	datatransfer.Complete: clsLifecycle, datatransfer.CleanupComplete: clsLifecycle, datatransfer.CompleteCleanupOnRestart: clsLifecycle,
	datatransfer.Cancel: clsEnding, datatransfer.Error: clsEnding,
	datatransfer.Restart: clsBookkeeping, datatransfer.Opened: clsBookkeeping,
	datatransfer.DataReceived: clsBookkeeping, datatransfer.DataSent: clsBookkeeping, datatransfer.DataQueued: clsBookkeeping,
	datatransfer.DataReceivedProgress: clsBookkeeping, datatransfer.DataSentProgress: clsBookkeeping, datatransfer.DataQueuedProgress: clsBookkeeping,
	datatransfer.NewVoucher: clsBookkeeping, datatransfer.NewVoucherResult: clsBookkeeping,
	datatransfer.PauseInitiator: clsBookkeeping, datatransfer.ResumeInitiator: clsBookkeeping,
	datatransfer.PauseResponder: clsBookkeeping, datatransfer.ResumeResponder: clsBookkeeping,
	datatransfer.Disconnected: clsBookkeeping, datatransfer.SendDataError: clsBookkeeping, datatransfer.ReceiveDataError: clsBookkeeping,
	datatransfer.RequestCancelled: clsBookkeeping, datatransfer.SetDataLimit: clsBookkeeping,
	datatransfer.SetRequiresFinalization: clsBookkeeping, datatransfer.DataLimitExceeded: clsBookkeeping,
}

func randMsg(r *rand.Rand) string {
	switch r.Intn(5) {
	case 0:
		return strings.Repeat("long message ", 1+r.Intn(500)) // < 8 KiB (cbor-gen string limit, DESIGN O1)
	case 1:
		return "ünïcode ✓ message"
	default:
		return fmt.Sprintf("err-%d", r.Intn(1000))
	}
}

// blockCounter hands out increasing block positions per direction so that generated
// block reports are traversal-shaped (DESIGN C07).
type blockCounter struct{ q, s, r int64 }

// numOpKinds is the number of event-sending methods of the channels API (28).
const numOpKinds = 28

// genOp draws one operation; ending events (Cancel, Error) have endWeight percent.
func genOp(r *rand.Rand, bc *blockCounter, endWeight int) evOp {
	if r.Intn(100) < endWeight {
		return opByKind(r, bc, 26+r.Intn(2))
	}
	k := r.Intn(29)
	switch {
	case k == 26:
		k = 1 // Accept twice as likely
	case k >= 27:
		k = 6 + r.Intn(3) // block reports more likely
	}
	return opByKind(r, bc, k)
}

// opByKind builds the k-th kind of operation (0..27) with PRNG arguments.
func opByKind(r *rand.Rand, bc *blockCounter, kind int) evOp {
	simple := func(name string, code datatransfer.EventCode, f func(cs *channels.Channels, c datatransfer.ChannelID) error) evOp {
		return evOp{Name: name, Code: code, Do: f}
	}
	switch kind {
	case 26:
		return simple("Cancel", datatransfer.Cancel, func(cs *channels.Channels, c datatransfer.ChannelID) error { return cs.Cancel(c) })
	case 27:
		m := randMsg(r)
		return evOp{"Error", datatransfer.Error, m, func(cs *channels.Channels, c datatransfer.ChannelID) error { return cs.Error(c, errors.New(m)) }}
	}
	switch kind {
	case 0:
		return simple("Open", datatransfer.Open, func(cs *channels.Channels, c datatransfer.ChannelID) error { return cs.Open(c) })
	case 1:
		return simple("Accept", datatransfer.Accept, func(cs *channels.Channels, c datatransfer.ChannelID) error { return cs.Accept(c) })
	case 2:
		return simple("ChannelOpened", datatransfer.Opened, func(cs *channels.Channels, c datatransfer.ChannelID) error { return cs.ChannelOpened(c) })
	case 3:
		return simple("TransferInitiated", datatransfer.TransferInitiated, func(cs *channels.Channels, c datatransfer.ChannelID) error { return cs.TransferInitiated(c) })
	case 4:
		return simple("Restart", datatransfer.Restart, func(cs *channels.Channels, c datatransfer.ChannelID) error { return cs.Restart(c) })
	case 5:
		return simple("CompleteCleanupOnRestart", datatransfer.CompleteCleanupOnRestart, func(cs *channels.Channels, c datatransfer.ChannelID) error {
			return cs.CompleteCleanupOnRestart(c)
		})
	case 6, 7, 8:
		d := kind - 6
		uniq := r.Intn(4) != 0
		size := uint64(r.Intn(1 << 20))
		var idx int64
		replay := r.Intn(5) == 0
		switch d {
		case 0:
			if !replay || bc.q == 0 {
				bc.q++
			}
			idx = bc.q
			return evOp{"DataQueued", datatransfer.DataQueued, fmt.Sprintf("size=%d idx=%d uniq=%v", size, idx, uniq), func(cs *channels.Channels, c datatransfer.ChannelID) error {
				return cs.DataQueued(c, dummyCid, size, idx, uniq)
			}}
		case 1:
			if !replay || bc.s == 0 {
				bc.s++
			}
			idx = bc.s
			return evOp{"DataSent", datatransfer.DataSent, fmt.Sprintf("size=%d idx=%d uniq=%v", size, idx, uniq), func(cs *channels.Channels, c datatransfer.ChannelID) error {
				return cs.DataSent(c, dummyCid, size, idx, uniq)
			}}
		default:
			if !replay || bc.r == 0 {
				bc.r++
			}
			idx = bc.r
			return evOp{"DataReceived", datatransfer.DataReceived, fmt.Sprintf("size=%d idx=%d uniq=%v", size, idx, uniq), func(cs *channels.Channels, c datatransfer.ChannelID) error {
				return cs.DataReceived(c, dummyCid, size, idx, uniq)
			}}
		}
	case 9:
		return simple("PauseInitiator", datatransfer.PauseInitiator, func(cs *channels.Channels, c datatransfer.ChannelID) error { return cs.PauseInitiator(c) })
	case 10:
		return simple("PauseResponder", datatransfer.PauseResponder, func(cs *channels.Channels, c datatransfer.ChannelID) error { return cs.PauseResponder(c) })
	case 11:
		return simple("ResumeInitiator", datatransfer.ResumeInitiator, func(cs *channels.Channels, c datatransfer.ChannelID) error { return cs.ResumeInitiator(c) })
	case 12:
		return simple("ResumeResponder", datatransfer.ResumeResponder, func(cs *channels.Channels, c datatransfer.ChannelID) error { return cs.ResumeResponder(c) })
	case 13:
		v := gen.Voucher(r, fmt.Sprintf("VT%d", r.Intn(3)))
		return evOp{"NewVoucher", datatransfer.NewVoucher, string(v.Type), func(cs *channels.Channels, c datatransfer.ChannelID) error { return cs.NewVoucher(c, v) }}
	case 14:
		v := gen.Voucher(r, fmt.Sprintf("RT%d", r.Intn(3)))
		return evOp{"NewVoucherResult", datatransfer.NewVoucherResult, string(v.Type), func(cs *channels.Channels, c datatransfer.ChannelID) error { return cs.NewVoucherResult(c, v) }}
	case 15:
		return simple("Complete", datatransfer.Complete, func(cs *channels.Channels, c datatransfer.ChannelID) error { return cs.Complete(c) })
	case 16:
		return simple("FinishTransfer", datatransfer.FinishTransfer, func(cs *channels.Channels, c datatransfer.ChannelID) error { return cs.FinishTransfer(c) })
	case 17:
		return simple("ResponderCompletes", datatransfer.ResponderCompletes, func(cs *channels.Channels, c datatransfer.ChannelID) error { return cs.ResponderCompletes(c) })
	case 18:
		return simple("ResponderBeginsFinalization", datatransfer.ResponderBeginsFinalization, func(cs *channels.Channels, c datatransfer.ChannelID) error {
			return cs.ResponderBeginsFinalization(c)
		})
	case 19:
		return simple("BeginFinalizing", datatransfer.BeginFinalizing, func(cs *channels.Channels, c datatransfer.ChannelID) error { return cs.BeginFinalizing(c) })
	case 20:
		m := randMsg(r)
		return evOp{"Disconnected", datatransfer.Disconnected, m, func(cs *channels.Channels, c datatransfer.ChannelID) error { return cs.Disconnected(c, errors.New(m)) }}
	case 21:
		m := randMsg(r)
		return evOp{"RequestCancelled", datatransfer.RequestCancelled, m, func(cs *channels.Channels, c datatransfer.ChannelID) error {
			return cs.RequestCancelled(c, errors.New(m))
		}}
	case 22:
		m := randMsg(r)
		return evOp{"SendDataError", datatransfer.SendDataError, m, func(cs *channels.Channels, c datatransfer.ChannelID) error { return cs.SendDataError(c, errors.New(m)) }}
	case 23:
		m := randMsg(r)
		return evOp{"ReceiveDataError", datatransfer.ReceiveDataError, m, func(cs *channels.Channels, c datatransfer.ChannelID) error {
			return cs.ReceiveDataError(c, errors.New(m))
		}}
	case 24:
		lim := uint64(r.Intn(1 << 22))
		if r.Intn(4) == 0 {
			lim = 0
		}
		return evOp{"SetDataLimit", datatransfer.SetDataLimit, fmt.Sprint(lim), func(cs *channels.Channels, c datatransfer.ChannelID) error { return cs.SetDataLimit(c, lim) }}
	case 25:
		b := r.Intn(2) == 0
		return evOp{"SetRequiresFinalization", datatransfer.SetRequiresFinalization, fmt.Sprint(b), func(cs *channels.Channels, c datatransfer.ChannelID) error {
			return cs.SetRequiresFinalization(c, b)
		}}
	default:
		return simple("Accept", datatransfer.Accept, func(cs *channels.Channels, c datatransfer.ChannelID) error { return cs.Accept(c) })
	}
}

// isTerminal / isCleanup on the public status values.
func isTerminal(s datatransfer.Status) bool {
	return s == datatransfer.Completed || s == datatransfer.Failed || s == datatransfer.Cancelled
}
func isCleanup(s datatransfer.Status) bool {
	return s == datatransfer.Completing || s == datatransfer.Failing || s == datatransfer.Cancelling
}
