package chk

import (
	"fmt"
	"testing"

	"github.com/ipfs/go-datastore"
	cidlink "github.com/ipld/go-ipld-prime/linking/cid"
	"github.com/libp2p/go-libp2p/core/peer"

	datatransfer "github.com/filecoin-project/go-data-transfer/v2"
	"github.com/filecoin-project/go-data-transfer/v2/channels"
	"github.com/filecoin-project/go-data-transfer/v2/message"

	"verif/harness/internal/cborx"
	"verif/harness/internal/doubles"
	"verif/harness/internal/gen"
	"verif/harness/internal/vf"
)

// ---- C03: no success without both parties; bookkeeping vs lifecycle -------------------------

// step is one applied event with the state before and after (from the snapshot stream).
type step struct {
	Code          datatransfer.EventCode
	Before, After *doubles.StateView
}

// stepsOf turns a channel's subscriber log into steps, starting from the creation state.
func stepsOf(created *doubles.StateView, evs []doubles.SEvent) []step {
	var out []step
	prev := created
	for _, e := range evs {
		out = append(out, step{e.Code, prev, e.View})
		prev = e.View
	}
	return out
}

// checkClassPredicates evaluates P3 (bookkeeping never changes status) and P4 (lifecycle never
// changes counters, pause flags, vouchers) on every step.
func checkClassPredicates(c *vf.Case, where string, steps []step) {
	for _, s := range steps {
		cls := eventClass[s.Code]
		b, a := s.Before, s.After
		switch cls {
		case clsBookkeeping:
			if b.Status != a.Status {
				// the one release the statement names: resume of a finalizing responder
				if s.Code == datatransfer.ResumeResponder && b.Status == datatransfer.Finalizing && a.Status == datatransfer.Completing {
					c.Count("release_from_finalizing", 1)
					continue
				}
				c.Violation("C03", fmt.Sprintf("bookkeeping-changed-status %s %s->%s", s.Code, b.Status, a.Status),
					"%s: bookkeeping event %s changed the lifecycle status %s -> %s", where, s.Code, b.Status, a.Status)
			}
		case clsLifecycle, clsEnding:
			var d []string
			if b.Queued != a.Queued || b.Sent != a.Sent || b.Received != a.Received || b.QueuedIdx != a.QueuedIdx || b.SentIdx != a.SentIdx || b.RecvIdx != a.RecvIdx {
				d = append(d, "counters")
			}
			if b.InitiatorPaused != a.InitiatorPaused {
				d = append(d, "InitiatorPaused")
			}
			// ResponderPaused() is derived (flag or Finalizing): compare only outside Finalizing
			if b.Status != datatransfer.Finalizing && a.Status != datatransfer.Finalizing && b.ResponderPaused != a.ResponderPaused {
				d = append(d, "ResponderPaused")
			}
			if !tvSame(b.Vouchers, a.Vouchers) || !tvSame(b.Results, a.Results) {
				d = append(d, "vouchers")
			}
			if b.DataLimit != a.DataLimit || b.RequiresFinalization != a.RequiresFinalization {
				d = append(d, "limits")
			}
			if len(d) > 0 {
				c.Violation("C03", fmt.Sprintf("lifecycle-changed-bookkeeping %s %v", s.Code, d), "%s: lifecycle event %s (in %s) changed %v", where, s.Code, b.Status, d)
			}
		default:
			c.Violation("C03", "unclassified-event "+s.Code.String(), "event %s (%d) has no class", s.Code, s.Code)
		}
	}
}

func tvSame(a, b []doubles.TV) bool {
	if len(a) != len(b) {
		return false
	}
	for i := range a {
		if a[i] != b[i] {
			return false
		}
	}
	return true
}

// checkOnlyIf evaluates P1 on an initiator's steps: entering Completing requires both signals
// (exception: a never-accepted channel whose local transfer finished).
func checkOnlyIf(c *vf.Case, where string, steps []step) {
	ft, rc, accepted := false, false, false
	for _, s := range steps {
		switch s.Code {
		case datatransfer.FinishTransfer:
			ft = true
		case datatransfer.ResponderCompletes:
			rc = true
		case datatransfer.Accept:
			accepted = true
		}
		if s.After.Status == datatransfer.Completing && s.Before.Status != datatransfer.Completing {
			if ft && rc {
				c.Count("completing_with_both", 1)
				continue
			}
			if !accepted && ft && s.Code == datatransfer.FinishTransfer && s.Before.Status == datatransfer.AwaitingAcceptance {
				c.Count("completing_never_accepted", 1)
				continue
			}
			c.Violation("C03", fmt.Sprintf("completing-without-both-signals via %s from %s ft=%v rc=%v", s.Code, s.Before.Status, ft, rc),
				"%s: initiator entered Completing on %s from %s with transport-finished=%v responder-complete=%v accepted=%v", where, s.Code, s.Before.Status, ft, rc, accepted)
		}
		if s.After.Status == datatransfer.Completed && !(ft && rc) && accepted {
			c.Violation("C03", "completed-without-both-signals", "%s: accepted initiator Completed with ft=%v rc=%v", where, ft, rc)
		}
	}
}

var bookkeepingKinds = []int{2, 4, 6, 7, 8, 9, 10, 11, 13, 14, 20, 21, 22, 23, 24}

// noise returns a bookkeeping operation that is safe for the P2/P5 liveness premises:
// no ResumeResponder (the release), no SetRequiresFinalization.
func noise(c *vf.Case, bc *blockCounter) evOp {
	return opByKind(c.Rng, bc, gen.Pick(c.Rng, bookkeepingKinds))
}

// TestC03Init: role-consistent initiator histories with the completion signals inserted in
// every order and position relative to bookkeeping noise.
func TestC03Init(t *testing.T) {
	vf.Run(t, "C03Init", vf.Opts{Bubble: true, DefaultN: 30}, func(c *vf.Case) {
		peers := gen.Peers(c.Rng, 2)
		r := role{Initiator: true, Pull: c.Rng.Intn(2) == 0}
		f := newChanFix(c, nil, peers[0])
		chid, _ := f.create(r, peers[1], datatransfer.TransferID(c.Rng.Uint64()), dummyCid, gen.SimpleVoucher("VT0", "v"))
		settle()
		created := f.view(chid)
		var bc blockCounter
		// the plan: Open, then a shuffle of {Accept, TransferInitiated, FT, RC, optional RBF(before RC)} with noise around
		variant := c.Index % 8
		withRBF := variant&1 == 1
		ftFirst := variant&2 == 2
		dup := variant == 7 || variant == 6 && c.Rng.Intn(2) == 0 // duplicated signals: P2 not asserted
		never := variant == 4                                     // never accepted, local finish in AwaitingAcceptance
		only := -1
		if variant == 5 {
			// only one of the two completion signals (0=FT,1=RC,2=RBF), or (3..5) a longer history that repeats
			// and interleaves signals of ONE side only with the responder's paused Complete: must not complete
			only = c.Rng.Intn(6)
		}
		type pl struct {
			name string
			kind int
		}
		var sigs []pl
		FT, RC, RBF := pl{"FinishTransfer", 16}, pl{"ResponderCompletes", 17}, pl{"ResponderBeginsFinalization", 18}
		switch {
		case only == 0:
			sigs = []pl{FT}
		case only == 1:
			sigs = []pl{RC}
		case only == 2:
			sigs = []pl{RBF}
			if c.Rng.Intn(2) == 0 {
				sigs = []pl{RBF, FT}
			}
		case only >= 3:
			sigs = gen.Pick(c.Rng, [][]pl{
				{RC, RBF, RC}, {RC, RBF}, {RBF, RC}, {RC, RC}, {RBF, RBF, RC}, {RC, RBF, RBF, RC}, {RC, RBF, RC, RBF}, // the local finish never comes
				{FT, RBF, FT}, {FT, FT}, {RBF, FT, RBF}, {FT, RBF}, {FT, RBF, RBF}, // the responder's final Complete never comes
			})
			c.Count("one_sided_histories", 1)
		case never:
			sigs = []pl{FT}
		default:
			if ftFirst {
				sigs = []pl{FT, RC}
			} else {
				sigs = []pl{RC, FT}
			}
			if withRBF { // paused complete arrives before the final complete, anywhere relative to FT
				pos := c.Rng.Intn(2)
				if sigs[0].kind == 17 {
					pos = 0
				} else if pos == 1 {
					pos = 1
				}
				sigs = append(sigs[:pos], append([]pl{RBF}, sigs[pos:]...)...)
			}
			if dup {
				sigs = append(sigs, gen.Pick(c.Rng, []pl{FT, RC}))
				c.Rng.Shuffle(len(sigs), func(i, j int) { sigs[i], sigs[j] = sigs[j], sigs[i] })
			}
		}
		var trace []string
		do := func(op evOp) { op.Do(f.cs, chid); trace = append(trace, op.Name); settle() }
		burst := func() {
			for i := c.Rng.Intn(4); i > 0; i-- {
				do(noise(c, &bc))
			}
		}
		do(opByKind(c.Rng, &bc, 0)) // Open
		burst()
		pre := []int{3, 1} // TransferInitiated, Accept
		if never {
			pre = []int{3}
		} else if c.Rng.Intn(2) == 0 {
			pre = []int{1, 3}
		}
		// acceptance may also arrive after the first signal
		late := -1
		if !never && c.Rng.Intn(4) == 0 {
			late = pre[len(pre)-1]
			pre = pre[:len(pre)-1]
		}
		for _, k := range pre {
			do(opByKind(c.Rng, &bc, k))
			burst()
		}
		for i, s := range sigs {
			do(opByKind(c.Rng, &bc, s.kind))
			burst()
			if i == 0 && late >= 0 {
				do(opByKind(c.Rng, &bc, late))
				burst()
			}
		}
		settle()
		final := f.view(chid)
		steps := stepsOf(created, f.sub.For(chid))
		checkOnlyIf(c, "C03Init", steps)
		checkClassPredicates(c, "C03Init", steps)
		// P2: both signals delivered once each (no duplicates, no ending) => Completed at quiescence
		if only < 0 && !dup && !never {
			if final.Status != datatransfer.Completed {
				c.Violation("C03", "both-signals-not-completed final="+final.Status.String(), "both completion signals delivered (%v) but the initiator is %s at quiescence", trace, final.Status)
			}
			c.Count("both_signals_cases", 1)
			c.Mark("order=%v rbf=%v late=%d", ftFirst, withRBF, late)
		}
		// (a single signal completing the channel is judged by P1 in checkOnlyIf, which knows the
		// never-accepted exception: FinishTransfer while still AwaitingAcceptance may complete)
		if only >= 0 {
			c.Count("single_signal_cases", 1)
		}
		if never {
			c.Count("never_accepted_cases", 1)
		}
		for _, s := range steps {
			c.Count("ev."+s.Code.String(), 1)
			c.Mark("st=%s", s.After.Status)
		}
		c.Mark("variant=%d", variant)
		c.NonTrivial()
		if c.Index < 3 {
			c.Sample(map[string]any{"role": r.String(), "history": trace, "final": final.Status.String()})
		}
		f.stop()
	})
}

// TestC03Resp: responder histories with and without finalization.
func TestC03Resp(t *testing.T) {
	vf.Run(t, "C03Resp", vf.Opts{Bubble: true, DefaultN: 30}, func(c *vf.Case) {
		peers := gen.Peers(c.Rng, 2)
		r := role{Initiator: false, Pull: c.Rng.Intn(2) == 0}
		f := newChanFix(c, nil, peers[0])
		chid, _ := f.create(r, peers[1], datatransfer.TransferID(c.Rng.Uint64()), dummyCid, gen.SimpleVoucher("VT0", "v"))
		settle()
		created := f.view(chid)
		var bc blockCounter
		var trace []string
		do := func(op evOp) { op.Do(f.cs, chid); trace = append(trace, op.Name); settle() }
		burst := func() {
			for i := c.Rng.Intn(4); i > 0; i-- {
				do(noise(c, &bc))
			}
		}
		finalize := c.Index%2 == 0
		do(opByKind(c.Rng, &bc, 0)) // Open
		do(opByKind(c.Rng, &bc, 1)) // Accept
		if finalize {
			f.cs.SetRequiresFinalization(chid, true)
			trace = append(trace, "SetRequiresFinalization(true)")
			settle()
		}
		burst()
		do(opByKind(c.Rng, &bc, 3)) // TransferInitiated
		burst()
		if finalize {
			do(opByKind(c.Rng, &bc, 19)) // BeginFinalizing
			for i := 0; i < 1+c.Rng.Intn(6); i++ {
				if c.Rng.Intn(4) == 0 {
					// a validation update may change the finalization requirement without releasing the channel
					do(opByKind(c.Rng, &bc, 25))
				} else {
					do(noise(c, &bc))
				}
				v := f.view(chid)
				if v.Status != datatransfer.Finalizing {
					c.Violation("C03", "left-finalizing-without-release "+trace[len(trace)-1], "responder left Finalizing (now %s) after %s without a release", v.Status, trace[len(trace)-1])
					break
				}
				if !v.ResponderPaused || !v.SelfPaused {
					c.Violation("C03", "finalizing-not-reported-paused", "responder in Finalizing reports ResponderPaused=%v SelfPaused=%v after %s", v.ResponderPaused, v.SelfPaused, trace[len(trace)-1])
				}
			}
			c.Count("finalizing_cases", 1)
			do(opByKind(c.Rng, &bc, 12)) // ResumeResponder = the release
		} else {
			do(opByKind(c.Rng, &bc, 15)) // Complete
		}
		settle()
		final := f.view(chid)
		if final.Status != datatransfer.Completed {
			c.Violation("C03", "responder-not-completed final="+final.Status.String(), "responder history %v ends in %s", trace, final.Status)
		}
		steps := stepsOf(created, f.sub.For(chid))
		checkClassPredicates(c, "C03Resp", steps)
		for _, s := range steps {
			c.Count("ev."+s.Code.String(), 1)
			c.Mark("st=%s", s.After.Status)
		}
		c.Mark("fin=%v", finalize)
		c.NonTrivial()
		if c.Index < 2 {
			c.Sample(map[string]any{"role": r.String(), "history": trace, "final": final.Status.String()})
		}
		f.stop()
	})
}

// mkV3 builds a version-3 channel record for state injection.
func mkV3(self peer.ID, chid datatransfer.ChannelID, pull bool, status datatransfer.Status, ip, rp bool, extra cborx.M) cborx.M {
	snd, rcp := chid.Initiator, chid.Responder
	if pull {
		snd, rcp = chid.Responder, chid.Initiator
	}
	m := cborx.M{
		"SelfPeer": cborx.Txt(self), "TransferID": uint64(chid.ID), "Initiator": cborx.Txt(chid.Initiator), "Responder": cborx.Txt(chid.Responder),
		"BaseCid": dummyCid, "Selector": cborx.M{"a": cborx.M{">": cborx.M{".": cborx.M{}}}}, "Sender": cborx.Txt(snd), "Recipient": cborx.Txt(rcp),
		"TotalSize": uint64(0), "Status": uint64(status), "Queued": uint64(1000), "Sent": uint64(900), "Received": uint64(800),
		"Message": "", "Vouchers": cborx.L{cborx.M{"Type": "VT0", "Voucher": cborx.L{"v"}}}, "VoucherResults": cborx.L{},
		"ReceivedBlocksTotal": int64(8), "QueuedBlocksTotal": int64(10), "SentBlocksTotal": int64(9),
		"DataLimit": uint64(0), "RequiresFinalization": false, "ResponderPaused": rp, "InitiatorPaused": ip,
		"Stages": cborx.L{cborx.L{}},
	}
	for k, v := range extra {
		m[k] = v
	}
	return m
}

var realStatuses = []datatransfer.Status{
	datatransfer.Requested, datatransfer.Ongoing, datatransfer.TransferFinished, datatransfer.ResponderCompleted, datatransfer.Finalizing,
	datatransfer.Completing, datatransfer.Completed, datatransfer.Failing, datatransfer.Failed, datatransfer.Cancelling, datatransfer.Cancelled,
	datatransfer.ResponderFinalizing, datatransfer.ResponderFinalizingTransferFinished, datatransfer.Queued, datatransfer.AwaitingAcceptance,
}

// injectStore seeds a version-3 store with one channel per (status, flags) combination.
func injectStore(self, other peer.ID, initiator, pull bool) (*doubles.RecDS, []datatransfer.ChannelID, map[datatransfer.ChannelID]datatransfer.Status) {
	ds := doubles.NewRecDS()
	ds.Put(bg, datastore.NewKey("/versions/current"), []byte("3"))
	var ids []datatransfer.ChannelID
	st := map[datatransfer.ChannelID]datatransfer.Status{}
	n := uint64(1)
	for _, s := range realStatuses {
		for fl := 0; fl < 4; fl++ {
			chid := datatransfer.ChannelID{Initiator: self, Responder: other, ID: datatransfer.TransferID(n)}
			if !initiator {
				chid = datatransfer.ChannelID{Initiator: other, Responder: self, ID: datatransfer.TransferID(n)}
			}
			n++
			ds.Put(bg, datastore.NewKey("/3/"+chid.String()), cborx.Encode(mkV3(self, chid, pull, s, fl&1 == 1, fl&2 == 2, nil)))
			ids = append(ids, chid)
			st[chid] = s
		}
	}
	return ds, ids, st
}

// TestC03Step: single-step product over injected (status, flags) x every operation kind.
func TestC03Step(t *testing.T) {
	vf.Run(t, "C03Step", vf.Opts{Bubble: true, DefaultN: numOpKinds * 4}, func(c *vf.Case) {
		kind := c.Index % numOpKinds
		rl := allRoles[(c.Index/numOpKinds)%4]
		peers := gen.Peers(c.Rng, 2)
		ds, ids, _ := injectStore(peers[0], peers[1], rl.Initiator, rl.Pull)
		env := doubles.NewRecEnv(peers[0])
		sub := &doubles.SubLog{}
		cs, err := channels.New(ds, channels.Notifier(sub.Fn()), env, peers[0])
		if err != nil {
			panic(err)
		}
		if err := cs.Start(bg); err != nil {
			panic(err)
		}
		applied := 0
		for _, chid := range ids {
			st, err := cs.GetByID(bg, chid)
			if err != nil {
				c.Violation("C03", "injected-record-unreadable", "injected record unreadable: %v", err)
				continue
			}
			before, p := doubles.ViewOf(st)
			probeC19(c, "injected", p)
			var bc blockCounter
			bc.q, bc.s, bc.r = before.QueuedIdx, before.SentIdx, before.RecvIdx
			op := opByKind(c.Rng, &bc, kind)
			nb := len(sub.For(chid))
			op.Do(cs, chid)
			settle()
			evs := sub.For(chid)[nb:]
			steps := stepsOf(before, evs)
			applied += len(steps)
			checkClassPredicates(c, fmt.Sprintf("C03Step %s in %s", op.Name, before.Status), steps)
			for _, s := range steps {
				c.Mark("%s:%s->%s", s.Code, s.Before.Status, s.After.Status)
				c.Count("ev."+s.Code.String(), 1)
			}
		}
		c.Count("steps_applied", applied)
		c.Mark("kind=%d role=%s", kind, rl)
		c.NonTrivial()
		if c.Index < 2 {
			c.Sample(map[string]any{"operation_kind": opByKind(c.Rng, &blockCounter{}, kind).Name, "role": rl.String(), "injected_channels": len(ids), "events_applied": applied})
		}
		cs.Stop(bg)
		settle()
	})
}

// TestC03Mgr: the responder's finalization hold at manager level. A responder whose validator
// required finalization is driven to Finalizing; then a PRNG series of validation updates that all
// still require finalization (with every shape of data limit: none, used up, not used up, huge; with
// and without ForcePause), voucher traffic and late data reports must neither release it nor send an
// un-paused Complete nor resume the transport; a releasing update (RequiresFinalization=false, no
// force pause) must complete it and send exactly one un-paused Complete.
func TestC03Mgr(t *testing.T) {
	vf.Run(t, "C03Mgr", vf.Opts{Bubble: true, DefaultN: 24}, func(c *vf.Case) {
		r := c.Rng
		peers := gen.Peers(r, 2)
		self, other := peers[0], peers[1]
		pull := c.Index%2 == 0
		f := newMgrFix(c, self, nil)
		limit0 := []uint64{0, 0, 5000, 1 << 40}[(c.Index/2)%4]
		f.val.SetOutcome(func(kind string, n int, ch datatransfer.ChannelID) (datatransfer.ValidationResult, error) {
			return datatransfer.ValidationResult{Accepted: true, RequiresFinalization: true, DataLimit: limit0}, nil
		})
		v := gen.Voucher(r, "VT0")
		chid := f.mkResponder(pull, other, datatransfer.TransferID(1+r.Intn(1<<30)), v)
		ev := f.tp.Events()
		link := cidlink.Link{Cid: dummyCid}
		ev.OnTransferInitiated(chid)
		settle()
		moved := uint64(0)
		for i := 1; i <= 1+r.Intn(4); i++ {
			sz := uint64(100 + r.Intn(900))
			if limit0 != 0 && moved+sz >= limit0 {
				break
			}
			if pull {
				ev.OnDataQueued(chid, link, sz, int64(i), true)
			} else {
				ev.OnDataReceived(chid, link, sz, int64(i), true)
			}
			moved += sz
			settle()
		}
		ev.OnChannelCompleted(chid, nil)
		settle()
		v0 := f.view(chid)
		if v0 == nil || v0.Status != datatransfer.Finalizing {
			c.Note("setup did not reach Finalizing: %v", v0)
			c.Count("setup_not_finalizing", 1)
			f.stop()
			return
		}
		unpausedCompletes := func(from int) int {
			n := 0
			for _, s := range f.net.Sends(from) {
				if rs, ok := s.Msg.(datatransfer.Response); ok && rs.TransferID() == chid.ID && rs.IsComplete() && !rs.IsPaused() {
					n++
				}
			}
			return n
		}
		nnet, ntp := f.net.Len(), f.tp.Len()
		steps := 1 + r.Intn(6)
		for i := 0; i < steps && c.Violations() == 0; i++ {
			what := ""
			switch r.Intn(6) {
			case 5:
				// the transport reports completion once more (the initiator restarted the channel during
				// the settlement wait and the new request ran through, or a duplicate callback)
				what = "transport reports completion again"
				if r.Intn(2) == 0 {
					rr, _ := message.NewRequest(chid.ID, true, pull, &v, dummyCid, gen.AllSelector)
					w, _ := doubles.Reencode(rr)
					if pull {
						ev.OnRequestReceived(chid, w.(datatransfer.Request))
					} else {
						f.net.Deliver(other, w)
					}
					settle()
					what = "restart request, then the transport reports completion again"
				}
				ev.OnChannelCompleted(chid, nil)
				c.Count("completion_reported_again_while_finalizing", 1)
			case 0, 1, 2:
				lim := []uint64{0, moved, moved + 1, moved + 1 + uint64(r.Intn(100000)), 1 << 50, limit0}[r.Intn(6)]
				res := datatransfer.ValidationResult{Accepted: true, RequiresFinalization: true, DataLimit: lim, ForcePause: r.Intn(3) == 0}
				if r.Intn(3) == 0 {
					tv := gen.Voucher(r, "VT1")
					res.VoucherResult = &tv
				}
				what = fmt.Sprintf("UpdateValidationStatus{RequiresFinalization:true DataLimit:%d (moved %d) ForcePause:%v}", lim, moved, res.ForcePause)
				if err := f.m.UpdateValidationStatus(bg, chid, res); err != nil {
					c.Note("%s: %v", what, err)
				}
				c.Count("holding_updates", 1)
			case 3:
				tv := gen.Voucher(r, "VT1")
				what = "SendVoucherResult"
				f.m.SendVoucherResult(bg, chid, tv)
			default:
				what = "late data report"
				if pull {
					ev.OnDataSent(chid, link, 10, 1, true)
				} else {
					ev.OnDataReceived(chid, link, 10, 1, false)
				}
			}
			settle()
			vn := f.view(chid)
			if vn == nil || vn.Status != datatransfer.Finalizing {
				c.Violation("C03", "left-finalizing-without-release", "responder (pull=%v) left Finalizing (now %v) after %s", pull, vn, what)
				break
			}
			if !vn.ResponderPaused {
				c.Violation("C03", "finalizing-not-reported-paused", "responder in Finalizing reports ResponderPaused=false after %s", what)
			}
			if n := unpausedCompletes(nnet); n > 0 {
				c.Violation("C03", "unpaused-complete-while-finalizing", "responder sent an un-paused Complete while still held for finalization, after %s", what)
			}
			for _, tc := range f.tp.CallsFrom(ntp) {
				if tc.Chid == chid && tc.Op == "resume" {
					c.Violation("C03", "transport-resumed-while-finalizing", "transport resumed while the responder is held for finalization, after %s", what)
				}
			}
		}
		if c.Violations() == 0 {
			// the release
			if err := f.m.UpdateValidationStatus(bg, chid, datatransfer.ValidationResult{Accepted: true, RequiresFinalization: false, DataLimit: 0}); err != nil {
				c.Violation("C03", "release-error", "releasing update failed: %v", err)
			}
			settle()
			vend := f.view(chid)
			if vend == nil || vend.Status != datatransfer.Completed {
				c.Violation("C03", "released-responder-not-completed", "released responder ended in %v", vend)
			}
			if n := unpausedCompletes(nnet); n != 1 {
				c.Violation("C03", fmt.Sprintf("release-complete-messages %d", n), "release sent %d un-paused Complete messages, want 1", n)
			}
			c.Count("manager_releases", 1)
		}
		c.Mark("pull=%v limit0=%d steps=%d", pull, limit0, steps)
		c.NonTrivial()
		if c.Index < 2 {
			c.Sample(map[string]any{"level": "manager", "pull": pull, "initial_limit": limit0, "moved": moved, "holding_steps": steps})
		}
		f.stop()
	})
}
