package chk

import (
	"context"
	"errors"
	"fmt"
	"sort"
	"sync"
	"testing"
	"testing/synctest"
	"time"

	"github.com/libp2p/go-libp2p/core/peer"

	datatransfer "github.com/filecoin-project/go-data-transfer/v2"
	"github.com/filecoin-project/go-data-transfer/v2/channelmonitor"
	"github.com/filecoin-project/go-data-transfer/v2/message"

	"verif/harness/internal/doubles"
	"verif/harness/internal/gen"
	"verif/harness/internal/vf"
)

// ---- C14: channel monitor ---------------------------------------------------------------------

type monCall struct {
	kind       string // connect restart close
	chid       datatransfer.ChannelID
	start, end time.Duration
	failed     bool
	seq        int // position in the double's call log (events remember the log length when they were fired)
}

// monAPI is the recording double of the monitor's view of the manager.
type monAPI struct {
	mu    sync.Mutex
	t0    time.Time
	self  peer.ID
	subs  map[int]datatransfer.Subscriber
	nsub  int
	calls []*monCall
	// per channel programming
	connFail map[datatransfer.ChannelID]func(i int) bool
	rstFail  map[datatransfer.ChannelID]func(i int) bool
	stall    map[datatransfer.ChannelID]time.Duration
	nconn    map[datatransfer.ChannelID]int
	nrst     map[datatransfer.ChannelID]int
}

func newMonAPI(self peer.ID) *monAPI {
	return &monAPI{t0: time.Now(), self: self, subs: map[int]datatransfer.Subscriber{},
		connFail: map[datatransfer.ChannelID]func(int) bool{}, rstFail: map[datatransfer.ChannelID]func(int) bool{},
		stall: map[datatransfer.ChannelID]time.Duration{}, nconn: map[datatransfer.ChannelID]int{}, nrst: map[datatransfer.ChannelID]int{}}
}
func (a *monAPI) now() time.Duration { return time.Since(a.t0) }
func (a *monAPI) SubscribeToEvents(s datatransfer.Subscriber) datatransfer.Unsubscribe {
	a.mu.Lock()
	defer a.mu.Unlock()
	id := a.nsub
	a.nsub++
	a.subs[id] = s
	return func() { a.mu.Lock(); delete(a.subs, id); a.mu.Unlock() }
}
func (a *monAPI) PeerID() peer.ID { return a.self }

// the monitor does not pass the channel to ConnectTo; the double learns it from the peer
// (every channel of a case has its own counterparty).
func (a *monAPI) ConnectTo(ctx context.Context, p peer.ID) error {
	a.mu.Lock()
	var chid datatransfer.ChannelID
	for c := range a.stall {
		if c.OtherParty(a.self) == p {
			chid = c
		}
	}
	i := a.nconn[chid]
	a.nconn[chid]++
	call := &monCall{kind: "connect", chid: chid, start: a.now(), seq: len(a.calls)}
	a.calls = append(a.calls, call)
	st := a.stall[chid]
	ff := a.connFail[chid]
	a.mu.Unlock()
	interrupted := false
	if st > 0 {
		select {
		case <-time.After(st):
		case <-ctx.Done():
			interrupted = true // a real dial gives up with the context's error
		}
	}
	fail := ff != nil && ff(i)
	a.mu.Lock()
	call.end, call.failed = a.now(), fail || interrupted
	a.mu.Unlock()
	if interrupted {
		return ctx.Err()
	}
	if fail {
		return failureErr("connect failed", i)
	}
	return nil
}

// failureErr is what a failed reconnect / restart looks like to the monitor: a plain error, or - as the
// network layer reports an unreachable peer - one that wraps the deadline of ITS OWN per-attempt timeout
// (or a cancellation inside it). Neither says anything about the monitor's own context.
func failureErr(what string, i int) error {
	switch i % 3 {
	case 1:
		return fmt.Errorf("%s: open stream: %w", what, context.DeadlineExceeded)
	case 2:
		return fmt.Errorf("%s: dial: %w", what, context.Canceled)
	}
	return errors.New(what)
}

func (a *monAPI) RestartDataTransferChannel(ctx context.Context, chid datatransfer.ChannelID) error {
	a.mu.Lock()
	i := a.nrst[chid]
	a.nrst[chid]++
	call := &monCall{kind: "restart", chid: chid, start: a.now(), seq: len(a.calls)}
	a.calls = append(a.calls, call)
	st := a.stall[chid]
	ff := a.rstFail[chid]
	a.mu.Unlock()
	interrupted := false
	if st > 0 {
		select {
		case <-time.After(st):
		case <-ctx.Done():
			interrupted = true
		}
	}
	fail := ff != nil && ff(i)
	a.mu.Lock()
	call.end, call.failed = a.now(), fail || interrupted
	a.mu.Unlock()
	if interrupted {
		return ctx.Err()
	}
	if fail {
		return failureErr("restart failed", i)
	}
	return nil
}
func (a *monAPI) CloseDataTransferChannelWithError(ctx context.Context, chid datatransfer.ChannelID, cherr error) error {
	a.mu.Lock()
	a.calls = append(a.calls, &monCall{kind: "close", chid: chid, start: a.now(), end: a.now(), seq: len(a.calls)})
	a.mu.Unlock()
	return nil
}
func (a *monAPI) fire(code datatransfer.EventCode, st datatransfer.Status, chid datatransfer.ChannelID) (callsBefore int) {
	a.mu.Lock()
	callsBefore = len(a.calls)
	ids := make([]int, 0, len(a.subs))
	for id := range a.subs {
		ids = append(ids, id)
	}
	sort.Ints(ids)
	subs := make([]datatransfer.Subscriber, 0, len(ids))
	for _, id := range ids {
		subs = append(subs, a.subs[id])
	}
	a.mu.Unlock()
	s := doubles.FakeState{ID: chid, Me: a.self, St: st}
	for _, sub := range subs {
		sub(datatransfer.Event{Code: code, Timestamp: time.Now()}, s)
	}
	return callsBefore
}
func (a *monAPI) snapshot() ([]monCall, int) {
	a.mu.Lock()
	defer a.mu.Unlock()
	out := make([]monCall, len(a.calls))
	for i, c := range a.calls {
		out[i] = *c
	}
	return out, len(a.subs)
}

type monEv struct {
	at   time.Duration
	kind string // error data accept finish end noise
	code datatransfer.EventCode
	st   datatransfer.Status
	// length of the double's call log when the event was handed to the subscribers
	callsBefore int
}

func failPattern(k, n int) func(int) bool {
	switch k {
	case 1:
		return func(i int) bool { return i < n } // first n fail
	case 2:
		return func(i int) bool { return true } // always
	case 3:
		return func(i int) bool { return i%2 == 0 } // alternate
	}
	return nil
}

func TestC14Monitor(t *testing.T) {
	vf.Run(t, "C14Monitor", vf.Opts{Bubble: true, DefaultN: 40}, func(c *vf.Case) {
		r := c.Rng
		peers := gen.Peers(r, 6)
		self := peers[0]
		api := newMonAPI(self)
		disabled := c.Index%12 == 11
		queued := c.Index%6 == 2 // structured scenario: restart requested during an attempt
		maxR := uint32(1 + r.Intn(4))
		cfg := &channelmonitor.Config{
			AcceptTimeout:          time.Duration(r.Intn(3)) * 20 * time.Second,
			RestartDebounce:        gen.Pick(r, []time.Duration{0, 100 * time.Millisecond, 500 * time.Millisecond}),
			RestartBackoff:         gen.Pick(r, []time.Duration{0, 300 * time.Millisecond, time.Second}),
			MaxConsecutiveRestarts: maxR,
			CompleteTimeout:        time.Duration(r.Intn(2)) * 30 * time.Second,
		}
		chain := 1 + c.Index/6%2 // number of consecutive attempts during which a restart is requested
		if queued {
			cfg.MaxConsecutiveRestarts = uint32(chain + 1 + r.Intn(3))
			maxR = cfg.MaxConsecutiveRestarts
			cfg.AcceptTimeout, cfg.CompleteTimeout = 0, 0
			cfg.RestartDebounce = gen.Pick(r, []time.Duration{0, 100 * time.Millisecond})
		}
		var m *channelmonitor.Monitor
		if disabled {
			m = channelmonitor.NewMonitor(api, nil)
		} else {
			m = channelmonitor.NewMonitor(api, cfg)
		}
		nch := 1 + r.Intn(4)
		if queued {
			nch = 1
		}
		type chst struct {
			chid    datatransfer.ChannelID
			addedAt time.Duration
			evs     []monEv
			cf, rf  int
		}
		var chs []*chst
		for i := 0; i < nch; i++ {
			ch := &chst{chid: datatransfer.ChannelID{Initiator: self, Responder: peers[1+i], ID: datatransfer.TransferID(100 + i)}}
			ch.cf, ch.rf = r.Intn(4), r.Intn(4)
			if r.Intn(2) == 0 {
				ch.cf = 0
			}
			if r.Intn(2) == 0 {
				ch.rf = 0
			}
			if queued {
				ch.cf, ch.rf = 0, 0
			}
			api.connFail[ch.chid] = failPattern(ch.cf, 1+r.Intn(3))
			api.rstFail[ch.chid] = failPattern(ch.rf, 1+r.Intn(3))
			api.stall[ch.chid] = gen.Pick(r, []time.Duration{0, 200 * time.Millisecond, 2 * time.Second})
			if queued {
				api.stall[ch.chid] = 2 * time.Second
			}
			ch.addedAt = api.now()
			var mc interface{ Shutdown() bool }
			if r.Intn(2) == 0 {
				x := m.AddPushChannel(ch.chid)
				if x != nil {
					mc = x
				}
			} else {
				x := m.AddPullChannel(ch.chid)
				if x != nil {
					mc = x
				}
			}
			if disabled && mc != nil {
				c.Violation("C14", "disabled-monitor-tracks", "AddChannel returned a monitored channel although monitoring is disabled")
			}
			chs = append(chs, ch)
		}
		// build the script: event times are 10ms*k + offset; offsets keep event classes apart from
		// each other and from timer expirations (multiples of 10ms after the add time)
		const horizon = 120 * time.Second
		type timed struct {
			ch *chst
			ev monEv
		}
		var script []timed
		for _, ch := range chs {
			if queued {
				// one error starts attempt A (connect 2s + restart 2s + backoff); more errors land inside A,
				// and (chain==2) inside the queued attempt B that follows it as well
				d := cfg.RestartDebounce
				script = append(script, timed{ch, monEv{at: 3 * time.Millisecond, kind: "error", code: datatransfer.SendDataError, st: datatransfer.Ongoing}})
				attemptLen := 4*time.Second + cfg.RestartBackoff
				for a := 0; a < chain; a++ {
					startA := 3*time.Millisecond + d + time.Duration(a)*attemptLen
					k := 1 + r.Intn(3)
					for j := 0; j < k; j++ {
						at := startA + time.Duration(200+r.Intn(3000))*time.Millisecond
						at = at/(10*time.Millisecond)*(10*time.Millisecond) + 3*time.Millisecond
						script = append(script, timed{ch, monEv{at: at, kind: "error", code: gen.Pick(r, []datatransfer.EventCode{datatransfer.SendDataError, datatransfer.ReceiveDataError}), st: datatransfer.Ongoing}})
					}
				}
				continue
			}
			// in a third of the cases, for channels whose reconnect takes a while: the channel is accepted, one
			// error starts a restart attempt, and the channel ends WHILE that attempt is in flight (the reconnect
			// gives up with its context's error once the monitor has shut down). The failed attempt must not
			// lead to a close of the channel that has just ended.
			if st := api.stall[ch.chid]; st > 0 && c.Index%3 == 1 {
				script = append(script, timed{ch, monEv{at: 5 * time.Millisecond, kind: "accept", code: datatransfer.Accept, st: datatransfer.Ongoing}})
				t0 := time.Second + 3*time.Millisecond
				script = append(script, timed{ch, monEv{at: t0, kind: "error", code: datatransfer.SendDataError, st: datatransfer.Ongoing}})
				endSt := gen.Pick(r, []datatransfer.Status{datatransfer.Completed, datatransfer.Cancelled, datatransfer.Failed, datatransfer.Completing})
				code := datatransfer.CleanupComplete
				if isCleanup(endSt) {
					code = datatransfer.Complete
				}
				script = append(script, timed{ch, monEv{at: t0 + cfg.RestartDebounce + st/2 + 6*time.Millisecond, kind: "end", code: code, st: endSt}})
				c.Count("ended_during_restart_attempt", 1)
				continue
			}
			n := 2 + r.Intn(14)
			ended := false
			for j := 0; j < n && !ended; j++ {
				base := time.Duration(r.Int63n(int64(horizon/(10*time.Millisecond)))) * 10 * time.Millisecond
				switch k := r.Intn(12); {
				case k < 4:
					burst := 1 + r.Intn(3)
					for b := 0; b < burst; b++ {
						script = append(script, timed{ch, monEv{at: base + time.Duration(b)*20*time.Millisecond + 3*time.Millisecond, kind: "error",
							code: gen.Pick(r, []datatransfer.EventCode{datatransfer.SendDataError, datatransfer.ReceiveDataError}), st: datatransfer.Ongoing}})
					}
				case k < 6:
					script = append(script, timed{ch, monEv{at: base + 7*time.Millisecond, kind: "data", code: gen.Pick(r, []datatransfer.EventCode{datatransfer.DataSent, datatransfer.DataReceived}), st: datatransfer.Ongoing}})
				case k < 8:
					script = append(script, timed{ch, monEv{at: base + 5*time.Millisecond, kind: "accept", code: datatransfer.Accept, st: datatransfer.Ongoing}})
				case k < 9:
					script = append(script, timed{ch, monEv{at: base + 5*time.Millisecond, kind: "finish", code: datatransfer.FinishTransfer, st: datatransfer.TransferFinished}})
				case k < 10:
					script = append(script, timed{ch, monEv{at: base + 1*time.Millisecond, kind: "noise", code: gen.Pick(r, []datatransfer.EventCode{datatransfer.NewVoucher, datatransfer.Opened, datatransfer.DataQueued, datatransfer.Disconnected, datatransfer.PauseResponder}), st: datatransfer.Ongoing}})
				default:
					if j > n/2 {
						st := gen.Pick(r, []datatransfer.Status{datatransfer.Completing, datatransfer.Completed, datatransfer.Cancelling, datatransfer.Cancelled, datatransfer.Failing, datatransfer.Failed})
						code := datatransfer.CleanupComplete
						if isCleanup(st) {
							code = gen.Pick(r, []datatransfer.EventCode{datatransfer.Cancel, datatransfer.Error, datatransfer.Complete, datatransfer.ResponderCompletes})
						}
						script = append(script, timed{ch, monEv{at: base + 9*time.Millisecond, kind: "end", code: code, st: st}})
						ended = true
					}
				}
			}
		}
		sort.SliceStable(script, func(i, j int) bool { return script[i].ev.at < script[j].ev.at })
		for _, s := range script {
			if d := s.ev.at - api.now(); d > 0 {
				time.Sleep(d)
			}
			at := api.now()
			nb := api.fire(s.ev.code, s.ev.st, s.ch.chid)
			s.ch.evs = append(s.ch.evs, monEv{at: at, kind: s.ev.kind, code: s.ev.code, st: s.ev.st, callsBefore: nb})
		}
		time.Sleep(30 * time.Minute)
		synctest.Wait()
		calls, nsubs := api.snapshot()

		if disabled {
			if len(calls) != 0 || nsubs != 0 {
				c.Violation("C14", "disabled-monitor-acts", "monitoring disabled but %d calls / %d subscriptions were made", len(calls), nsubs)
			}
			c.Count("disabled_cases", 1)
		}
		alive := 0
		for _, ch := range chs {
			if disabled {
				break
			}
			var mine []monCall
			for _, cl := range calls {
				if cl.chid == ch.chid {
					mine = append(mine, cl)
				}
			}
			var closes, connects []monCall
			for _, cl := range mine {
				switch cl.kind {
				case "close":
					closes = append(closes, cl)
				case "connect":
					connects = append(connects, cl)
				}
			}
			c.Count("connect_attempts", len(connects))
			c.Count("closes", len(closes))
			// I1: at most one attempt in flight: api call intervals of one channel never overlap
			for i := range mine {
				for j := i + 1; j < len(mine); j++ {
					a, b := mine[i], mine[j]
					if a.kind == "close" || b.kind == "close" {
						continue
					}
					if a.start < b.end && b.start < a.end {
						c.Violation("C14", "overlapping-restart-attempts", "channel %d: %s[%v,%v] overlaps %s[%v,%v]", ch.chid.ID, a.kind, a.start, a.end, b.kind, b.start, b.end)
					}
				}
			}
			// I3: one verdict
			if len(closes) > 1 {
				c.Violation("C14", "closed-more-than-once", "channel %d closed with error %d times at %v", ch.chid.ID, len(closes), closes)
			}
			// timeline facts
			var endAt, acceptAt time.Duration = -1, -1
			endCalls := 0 // length of the call log when the ending event was handed to the monitor
			var dataAt, finishAt, errorAt []time.Duration
			for _, e := range ch.evs {
				switch e.kind {
				case "end":
					if endAt < 0 {
						endAt, endCalls = e.at, e.callsBefore
					}
				case "accept":
					if acceptAt < 0 {
						acceptAt = e.at
					}
				case "data":
					dataAt = append(dataAt, e.at)
				case "finish":
					finishAt = append(finishAt, e.at)
				case "error":
					errorAt = append(errorAt, e.at)
				}
			}
			closeAt := time.Duration(-1)
			if len(closes) > 0 {
				closeAt = closes[0].start
			}
			stopAt := endAt // the instant after which the monitor must be silent
			if closeAt >= 0 && (stopAt < 0 || closeAt < stopAt) {
				stopAt = closeAt
			}
			// I2: attempts without data progress are bounded
			cnt, di := 0, 0
			for _, cn := range connects {
				for di < len(dataAt) && dataAt[di] < cn.start {
					cnt = 0
					di++
				}
				cnt++
				if cnt > int(maxR) {
					c.Violation("C14", "too-many-consecutive-restarts", "channel %d: attempt #%d without data progress at %v (max %d)", ch.chid.ID, cnt, cn.start, maxR)
					break
				}
			}
			// predictable deadlines: accept timeout and complete timeouts
			E := time.Duration(-1)
			reason := ""
			if cfg.AcceptTimeout > 0 && (acceptAt < 0 || acceptAt > ch.addedAt+cfg.AcceptTimeout) {
				E, reason = ch.addedAt+cfg.AcceptTimeout, "accept-timeout"
			}
			if cfg.CompleteTimeout > 0 {
				for _, f := range finishAt {
					if d := f + cfg.CompleteTimeout; E < 0 || d < E {
						E, reason = d, "complete-timeout"
					}
				}
			}
			if E >= 0 && endAt >= 0 && endAt < E {
				E = -1 // the channel ended before the deadline: the monitor is gone by then
			}
			// I6a: the deadline closes the channel exactly then, unless something closed it earlier
			if E >= 0 {
				switch {
				case closeAt < 0:
					c.Violation("C14", "timeout-did-not-close "+reason, "channel %d: %s deadline at %v passed but the channel was never closed", ch.chid.ID, reason, E)
				case closeAt > E:
					c.Violation("C14", "timeout-closed-late "+reason, "channel %d: %s deadline %v but closed at %v", ch.chid.ID, reason, E, closeAt)
				}
				c.Count("deadline_cases."+reason, 1)
			}
			// I6b: a close that is not a deadline must be justified by an exhausted restart budget
			if closeAt >= 0 && closeAt != E {
				n := 0
				lastData := time.Duration(-1)
				for _, d := range dataAt {
					if d < closeAt {
						lastData = d
					}
				}
				for _, cn := range connects {
					if cn.start > lastData && cn.start <= closeAt {
						n++
					}
				}
				if n < int(maxR) {
					why := "no timeout was due"
					if acceptAt >= 0 && cfg.AcceptTimeout > 0 && closeAt == ch.addedAt+cfg.AcceptTimeout {
						why = fmt.Sprintf("Accept had been delivered at %v, before the accept deadline", acceptAt)
					}
					c.Violation("C14", "unjustified-close", "channel %d closed at %v after only %d of %d allowed attempts since the last data progress; %s", ch.chid.ID, closeAt, n, maxR, why)
				}
				c.Count("budget_closes", 1)
			}
			// I6c: persistent failure must end in a close
			if (ch.cf == 2 || ch.rf == 2) && closeAt < 0 {
				trig := false
				for _, e := range errorAt {
					if endAt < 0 || e < endAt {
						trig = true
					}
				}
				if trig && endAt < 0 {
					c.Violation("C14", "persistent-failure-not-closed", "channel %d: every reconnect/restart fails yet the channel was never closed", ch.chid.ID)
				}
			}
			// I4: silence after the monitor saw the channel cleaning up / terminal, or after its verdict
			if stopAt >= 0 {
				for _, cl := range mine {
					// (reconnect / restart calls of an attempt that was debounced, queued or being retried
					// when the monitor stopped may still arrive: the property only rules out later CLOSES;
					// they are counted, not judged)
					if cl.start > stopAt && cl.kind != "close" {
						c.Count("reconnect_or_restart_calls_after_stop", 1)
					}
					// (judged by the order of the log, not by the clock: a close that the ending itself provokes
					// happens at the same virtual instant; nothing else is scheduled at an ending's instant)
					if cl.kind == "close" && endAt >= 0 && cl.seq >= endCalls {
						c.Violation("C14", "close-after-terminal", "channel %d closed at %v after it was seen %s at %v", ch.chid.ID, cl.start, "ending", endAt)
					}
				}
				// forgotten: the channel can be added again
				if x := m.AddPushChannel(ch.chid); x == nil {
					c.Violation("C14", "channel-not-forgotten", "channel %d still tracked after the monitor stopped watching it", ch.chid.ID)
				} else {
					x.Shutdown()
				}
				c.Count("stopped_channels", 1)
			} else {
				alive++
			}
			// restart requested during an attempt is performed exactly once afterwards
			if queued {
				if len(connects) != chain+1 {
					c.Violation("C14", fmt.Sprintf("queued-restart-count %d want %d", len(connects), chain+1), "restarts requested during %d consecutive attempt(s): expected exactly one more attempt after each, saw %d attempts in total: %v", chain, len(connects), connects)
				}
				c.Count("queued_cases", 1)
			}
			c.Mark("cf=%d rf=%d closes=%d conn=%d end=%v reason=%s", ch.cf, ch.rf, len(closes), min(len(connects), 5), endAt >= 0, reason)
		}
		if !disabled {
			synctest.Wait()
			_, nsubs = api.snapshot()
			if nsubs != alive {
				c.Violation("C14", "subscription-leak", "%d subscriptions remain for %d channels still being watched", nsubs, alive)
			}
		}
		// end every remaining channel so that no monitor goroutine outlives the bubble
		for _, ch := range chs {
			api.fire(datatransfer.CleanupComplete, datatransfer.Completed, ch.chid)
		}
		time.Sleep(time.Hour)
		synctest.Wait()
		m.Shutdown()
		time.Sleep(time.Minute)
		c.Mark("dis=%v q=%v max=%d at=%v ct=%v", disabled, queued, maxR, cfg.AcceptTimeout, cfg.CompleteTimeout)
		c.Count("events", len(script))
		c.NonTrivial()
		if c.Index < 3 {
			var sc []string
			for _, s := range script {
				sc = append(sc, fmt.Sprintf("%v ch%d %s", s.ev.at, s.ch.chid.ID, s.ev.kind))
			}
			var cl []string
			for _, x := range calls {
				cl = append(cl, fmt.Sprintf("%s ch%d [%v,%v] failed=%v", x.kind, x.chid.ID, x.start, x.end, x.failed))
			}
			c.Sample(map[string]any{"config": fmt.Sprintf("%+v", *cfg), "disabled": disabled, "script": sc, "api_calls": cl})
		}
	})
}

// TestC14Mgr: the monitor wired into the REAL manager. An initiator's channel loses its connection
// (the transport reports a send/receive error or a disconnect); the monitor reconnects and restarts.
// The fault placed by the case makes that fail persistently - the reconnect, the restart request on
// the wire (push), or the re-opened transport request (pull) - or only a few times. Oracle (virtual
// clock, quiescence): persistent failure => the channel is closed with an error exactly once and
// ends Failed; transient failure => it is not closed and at most the configured number of
// consecutive attempts were made; nothing happens after the channel ended.
func TestC14Mgr(t *testing.T) {
	vf.Run(t, "C14Mgr", vf.Opts{Bubble: true, DefaultN: 24}, func(c *vf.Case) {
		r := c.Rng
		pull := c.Index%2 == 0
		fault := (c.Index / 2) % 4 // 0 none, 1 reconnect fails, 2 the restart itself fails (send / transport open), 3 both alternate
		persistent := (c.Index/8)%2 == 0
		maxR := uint32(2 + r.Intn(4))
		cfg := channelmonitor.Config{AcceptTimeout: time.Hour, CompleteTimeout: time.Hour, RestartDebounce: time.Duration(1+r.Intn(200)) * time.Millisecond,
			RestartBackoff: time.Duration(r.Intn(3)) * time.Second, MaxConsecutiveRestarts: maxR}
		peers := gen.Peers(r, 2)
		self, other := peers[0], peers[1]
		// in half of the fault-free cases the responder's acceptance is processed while the open call is
		// still sending the request (a fast transport), and the accept timeout is short: an accepted channel
		// must not be closed for "no Accept in time"
		fastAccept := fault == 0 && (c.Index/8)%2 == 1
		if fastAccept {
			cfg.AcceptTimeout = time.Duration(1+r.Intn(30)) * time.Second
		}
		f := newMgrFix(c, self, nil, withMonitor(cfg))
		v := gen.Voucher(r, "VT0")
		if fastAccept {
			var first sync.Once
			f.net.SetOnSend(func(p peer.ID, m datatransfer.Message) error {
				if rq, ok := m.(datatransfer.Request); ok && rq.IsNew() && !pull {
					first.Do(func() {
						resp, _ := message.NewResponse(rq.TransferID(), true, false, nil)
						f.deliverResponse(datatransfer.ChannelID{Initiator: self, Responder: other, ID: rq.TransferID()}, false, resp)
					})
				}
				return nil
			})
			f.tp.SetOn(func(tc *doubles.TCall) error {
				if tc.Op == "open" && pull {
					first.Do(func() {
						resp, _ := message.NewResponse(tc.Chid.ID, true, false, nil)
						f.deliverResponse(tc.Chid, true, resp)
					})
				}
				return nil
			})
			c.Count("accept_processed_during_open", 1)
		}
		chid, err := f.open(pull, other, v, dummyCid)
		if err != nil {
			panic(err)
		}
		settle()
		if !fastAccept {
			resp, _ := message.NewResponse(chid.ID, true, false, nil)
			f.deliverResponse(chid, pull, resp)
		}
		f.tp.Events().OnTransferInitiated(chid)
		settle()
		budget := 0 // failures still to inject (transient mode)
		if !persistent {
			budget = 1 + r.Intn(int(maxR)-1)
		}
		var fmu sync.Mutex
		failing := func() bool {
			fmu.Lock()
			defer fmu.Unlock()
			if fault == 0 {
				return false
			}
			if persistent {
				return true
			}
			if budget > 0 {
				budget--
				return true
			}
			return false
		}
		connects, restartSends, reopens := 0, 0, 0
		ntp0 := f.tp.Len()
		f.net.SetOnConnect(func(p peer.ID) error {
			fmu.Lock()
			connects++
			k := connects
			fmu.Unlock()
			if (fault == 1 || (fault == 3 && k%2 == 1)) && failing() {
				return failureErr("no route to peer", k)
			}
			return nil
		})
		f.net.SetOnSend(func(p peer.ID, m datatransfer.Message) error {
			if rq, ok := m.(datatransfer.Request); ok && rq.IsRestart() {
				fmu.Lock()
				restartSends++
				fmu.Unlock()
				if (fault == 2 || fault == 3) && failing() {
					return failureErr("stream reset", restartSends)
				}
			}
			return nil
		})
		f.tp.SetOn(func(tc *doubles.TCall) error {
			if tc.Op == "open" && tc.Chid == chid && f.tp.Len() > ntp0 {
				fmu.Lock()
				reopens++
				fmu.Unlock()
				if (fault == 2 || fault == 3) && failing() {
					return failureErr("graphsync request could not be opened", reopens)
				}
			}
			return nil
		})
		nev := len(f.sub.For(chid))
		// the connection drops
		// (send / receive errors are what the monitor restarts on; a bare disconnect notice is not)
		if r.Intn(2) == 0 {
			f.tp.Events().OnSendDataError(chid, errors.New("write: broken pipe"))
		} else {
			f.tp.Events().OnReceiveDataError(chid, errors.New("read: connection reset"))
		}
		time.Sleep(10 * time.Minute)
		synctest.Wait()
		final := f.view(chid)
		errorsSeen, closesToTransport := 0, 0
		for _, e := range f.sub.For(chid)[nev:] {
			if e.Code == datatransfer.Error {
				errorsSeen++
			}
		}
		for _, tc := range f.tp.CallsFrom(ntp0) {
			if tc.Op == "close" && tc.Chid == chid {
				closesToTransport++
			}
		}
		fmu.Lock()
		attempts := connects
		fmu.Unlock()
		what := fmt.Sprintf("pull=%v fault=%d persistent=%v max=%d connects=%d restart-sends=%d reopens=%d", pull, fault, persistent, maxR, connects, restartSends, reopens)
		if fault != 0 && persistent {
			if final == nil || (final.Status != datatransfer.Failed && final.Status != datatransfer.Failing) {
				c.Violation("C14", "persistent-failure-not-closed", "every reconnect/restart fails, yet after 10 virtual minutes the channel is %v (%s)", final, what)
			}
			if errorsSeen != 1 {
				c.Violation("C14", fmt.Sprintf("closed-with-error-count %d", errorsSeen), "channel closed with an error %d times, want exactly once (%s)", errorsSeen, what)
			}
			c.Count("mgr_persistent_failures", 1)
		} else {
			if errorsSeen != 0 || (final != nil && (final.Status == datatransfer.Failed || final.Status == datatransfer.Failing)) {
				c.Violation("C14", "unjustified-close", "restart succeeded within the allowed attempts, yet the channel was closed with an error: %v (%s)", final, what)
			}
			c.Count("mgr_recovered", 1)
		}
		if attempts > int(maxR)+1 {
			c.Violation("C14", "too-many-consecutive-restarts", "%d reconnects without data progress, limit %d (%s)", attempts, maxR, what)
		}
		// silence after the end
		nnet, ntp := f.net.Len(), f.tp.Len()
		if final != nil && isTerminal(final.Status) {
			f.tp.Events().OnSendDataError(chid, errors.New("late error"))
			time.Sleep(10 * time.Minute)
			synctest.Wait()
			for _, nc := range f.net.Calls()[nnet:] {
				if nc.Op == "connect" {
					c.Violation("C14", "restart-after-channel-ended", "the monitor reconnected for a channel that had already ended")
				}
			}
			_ = ntp
		}
		c.Mark("pull=%v fault=%d persistent=%v final=%v", pull, fault, persistent, final != nil && isTerminal(final.Status))
		c.NonTrivial()
		if c.Index < 2 {
			c.Sample(map[string]any{"level": "manager+monitor", "pull": pull, "fault": fault, "persistent": persistent, "max_consecutive_restarts": maxR, "reconnects": connects, "restart_requests_sent": restartSends, "transport_reopens": reopens, "final": fmt.Sprint(final)})
		}
		// end the channel so that no monitor goroutine outlives the bubble
		if final != nil && !isTerminal(final.Status) {
			f.m.CloseDataTransferChannel(bg, chid)
			time.Sleep(time.Minute)
		}
		f.stop()
		time.Sleep(2 * time.Hour)
	})
}
