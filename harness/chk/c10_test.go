package chk

import (
	"errors"
	"fmt"
	"strings"
	"sync"
	"testing"
	"time"

	"github.com/ipfs/go-datastore"
	"github.com/ipfs/go-graphsync"
	"github.com/ipfs/go-graphsync/donotsendfirstblocks"
	"github.com/ipld/go-ipld-prime/datamodel"
	"github.com/libp2p/go-libp2p/core/peer"

	datatransfer "github.com/filecoin-project/go-data-transfer/v2"
	"github.com/filecoin-project/go-data-transfer/v2/message"
	"github.com/filecoin-project/go-data-transfer/v2/transport/graphsync/extension"
	"github.com/filecoin-project/go-data-transfer/v2/transport/graphsync/testharness"

	"verif/harness/internal/cborx"
	"verif/harness/internal/doubles"
	"verif/harness/internal/gen"
	"verif/harness/internal/vf"
)

// ---- C10: restart resumes the same transfer ---------------------------------------------------

func identityDiff(a, b *doubles.StateView) []string {
	var d []string
	for _, f := range doubles.Diff(a, b, false) {
		switch f {
		case "Chid", "TransferID", "Self", "Other", "Sender", "Recipient", "BaseCID", "Selector", "Voucher", "IsPull",
			"Queued", "Sent", "Received", "QueuedIdx", "SentIdx", "RecvIdx":
			d = append(d, f)
		}
	}
	return d
}

func channelKeys(ds *doubles.RecDS) int {
	n := 0
	for k := range ds.Snapshot() {
		if strings.HasPrefix(k, "/3/") {
			n++
		}
	}
	return n
}

// dtMessageOf extracts the data-transfer message carried by a recorded graphsync call.
func dtMessageOf(gc doubles.GSCall) datatransfer.Message {
	m, _ := extension.GetTransferData(fakeExt(gc.Exts), []graphsync.ExtensionName{extension.ExtensionDataTransfer1_1, extension.ExtensionIncomingRequest1_1})
	return m
}

func skipCountOf(gc doubles.GSCall) (int64, bool) {
	nd, ok := gc.Exts[graphsync.ExtensionsDoNotSendFirstBlocks]
	if !ok {
		return 0, false
	}
	n, err := donotsendfirstblocks.DecodeDoNotSendFirstBlocks(nd)
	return n, err == nil
}

func TestC10Restart(t *testing.T) {
	vf.Run(t, "C10Restart", vf.Opts{Bubble: true, DefaultN: 48}, func(c *vf.Case) {
		r := c.Rng
		rl := allRoles[c.Index%4]
		reopen := (c.Index/4)%2 == 1
		prev := (c.Index / 8) % 4 // previous request: 0 live, 1 completed with error, 2 requester-cancelled (gs responder roles) / none, 3 completed successfully (our side of the transfer is finished, the channel is not)
		nblocks := []int{0, 1 + r.Intn(20), 1 + r.Intn(3)}[(c.Index/32)%3]
		peers := gen.Peers(r, 2)
		self, other := peers[0], peers[1]
		f := newGsMgrFix(c, self, nil)
		if !rl.Initiator && prev == 3 {
			// a responder that requires finalization stays in Finalizing when its own side is done
			f.val.SetOutcome(func(kind string, n int, ch datatransfer.ChannelID) (datatransfer.ValidationResult, error) {
				return datatransfer.ValidationResult{Accepted: true, RequiresFinalization: true}, nil
			})
		}
		v := gen.Voucher(r, "VT0")
		weRequest := rl.Initiator == rl.Pull // pull initiator and push responder issue the graphsync request
		var chid datatransfer.ChannelID
		var inID graphsync.RequestID
		incoming := func(m datatransfer.Message) (graphsync.RequestID, *testharness.FakeIncomingRequestHookActions) {
			id := graphsync.NewRequestID()
			act := &testharness.FakeIncomingRequestHookActions{}
			f.gs.IncomingRequestHook(other, doubles.Req(id, dtExt(m)), act)
			return id, act
		}
		// ---- open and accept
		if rl.Initiator {
			var err error
			if rl.Pull {
				chid, err = f.m.OpenPullDataChannel(bg, other, v, dummyCid, gen.AllSelector)
			} else {
				chid, err = f.m.OpenPushDataChannel(bg, other, v, dummyCid, gen.AllSelector)
			}
			if err != nil {
				panic(err)
			}
			settle()
			resp, _ := message.NewResponse(chid.ID, true, false, nil)
			if rl.Pull {
				id, _ := f.lastRequest()
				f.gs.IncomingResponseHook(other, doubles.Resp(id, map[graphsync.ExtensionName]datamodel.Node{extension.ExtensionIncomingRequest1_1: wireNode(resp.ToIPLD())}, graphsync.PartialResponse), &testharness.FakeIncomingResponseHookActions{})
			} else {
				inID, _ = incoming(resp)
			}
		} else {
			tid := datatransfer.TransferID(1 + r.Intn(1<<30))
			chid = datatransfer.ChannelID{Initiator: other, Responder: self, ID: tid}
			req, _ := message.NewRequest(tid, false, rl.Pull, &v, dummyCid, gen.AllSelector)
			if rl.Pull {
				inID, _ = incoming(req)
			} else {
				w, _ := doubles.Reencode(req)
				f.net.Deliver(other, w)
			}
		}
		settle()
		if f.view(chid) == nil {
			c.Violation("C10", "setup-failed", "channel not created for role %s", rl)
			f.m.Stop(bg)
			return
		}
		// a later voucher: the restart must still carry the original one
		var later *datatransfer.TypedVoucher
		if r.Intn(2) == 0 {
			lv := gen.Voucher(r, "VT0")
			for doubles.CBOR(lv.Voucher) == doubles.CBOR(v.Voucher) {
				lv = gen.Voucher(r, "VT0")
			}
			if rl.Initiator {
				if f.m.SendVoucher(bg, chid, lv) == nil {
					later = &lv
				}
			} else {
				vr, _ := message.VoucherRequest(chid.ID, &lv)
				w, _ := doubles.Reencode(vr)
				f.net.Deliver(other, w)
				later = &lv
			}
			settle()
		}
		// ---- progress
		var firstReq graphsync.RequestID
		if weRequest {
			firstReq, _ = f.lastRequest()
			f.gs.OutgoingRequestProcessingListener(other, doubles.Req(firstReq, nil), 1)
			for i := 1; i <= nblocks; i++ {
				f.gs.IncomingBlockHook(other, doubles.Resp(firstReq, nil, graphsync.PartialResponse), doubles.Block(uint64(100+i), int64(i), r.Intn(5) != 0), &testharness.FakeIncomingBlockHookActions{})
			}
		} else {
			f.gs.IncomingRequestProcessingListener(other, doubles.Req(inID, nil), 1)
			for i := 1; i <= nblocks; i++ {
				f.gs.OutgoingBlockHook(other, doubles.Req(inID, nil), doubles.Block(uint64(100+i), int64(i), true), &testharness.FakeOutgoingBlockHookActions{})
				f.gs.BlockSentListener(other, doubles.Req(inID, nil), doubles.Block(uint64(100+i), int64(i), true))
			}
		}
		settle()
		// ---- state of the previous request
		queued := 0
		switch prev {
		case 1:
			if weRequest {
				f.gs.Complete(firstReq, errors.New("connection lost"))
			} else {
				f.gs.NetworkErrorListener(other, doubles.Req(inID, nil), errors.New("connection lost"))
			}
		case 3:
			// our own transport request ends successfully while the counterparty's completion is still
			// outstanding (or, on a responder that requires finalization, while it is held): TransferFinished /
			// Finalizing. The channel is neither terminated nor cleaning up, so a restart is a restart.
			if weRequest {
				f.gs.Complete(firstReq, nil)
			} else {
				f.gs.CompletedResponseListener(other, doubles.Req(inID, nil), graphsync.RequestCompletedFull)
			}
			c.Count("own_side_finished_before_restart", 1)
		case 2:
			if !weRequest {
				f.gs.RequestorCancelledListener(other, doubles.Req(inID, nil))
				// messages sent while the requester is away are queued for its next request
				queued = 1 + r.Intn(2)
				for i := 0; i < queued; i++ {
					f.tr.ResumeChannel(bg, message.UpdateResponse(chid.ID, false), chid)
				}
			}
		}
		settle()
		before := f.view(chid)
		if before == nil || isTerminal(before.Status) || isCleanup(before.Status) {
			c.Mark("ended-before-restart %v", before)
			f.m.Stop(bg)
			settle()
			return
		}
		if reopen {
			f.m.Stop(bg)
			settle()
			for _, gc := range f.gs.Calls() {
				if gc.Op == "request" {
					f.gs.Complete(gc.ID, nil)
				}
			}
			settle()
			f = newGsMgrFix(c, self, f.ds)
			queued = 0
		}
		outcome := r.Intn(4) // validator on restart: 0-2 accept, 3 reject
		// the previous request is only cancelled when the new one is opened: blocks of it can still arrive
		// while the restart is being validated (push responder, previous request live)
		lateBlocks := 0
		if weRequest && !rl.Initiator && prev == 0 && !reopen {
			lateBlocks = 1 + r.Intn(3)
		}
		lateFired := false
		f.val.SetOutcome(func(kind string, n int, ch datatransfer.ChannelID) (datatransfer.ValidationResult, error) {
			if kind == "restart" && lateBlocks > 0 && !lateFired {
				lateFired = true
				for i := 1; i <= lateBlocks; i++ {
					f.gs.IncomingBlockHook(other, doubles.Resp(firstReq, nil, graphsync.PartialResponse), doubles.Block(uint64(500+i), int64(nblocks+i), true), &testharness.FakeIncomingBlockHookActions{})
				}
			}
			return datatransfer.ValidationResult{Accepted: outcome != 3}, nil
		})
		nkeys := channelKeys(f.ds)
		ngs, nnet, nval := f.gs.Len(), f.net.Len(), len(f.val.Calls())
		// ---- the restart itself
		remote := !rl.Initiator && r.Intn(2) == 0 // responder roles: the initiator's restart request arrives
		if !rl.Initiator && !reopen && ((rl.Pull && prev == 2) || (!rl.Pull && prev == 0)) && r.Intn(5) != 0 {
			remote = true // the combinations that exercise queued messages / cancel-before-request
			if outcome == 3 && r.Intn(2) == 0 {
				outcome = 0
			}
		}
		var act *testharness.FakeIncomingRequestHookActions
		var apiErr error
		if remote {
			rr, _ := message.NewRequest(chid.ID, true, rl.Pull, &v, dummyCid, gen.AllSelector)
			if rl.Pull {
				_, act = incoming(rr)
			} else {
				w, _ := doubles.Reencode(rr)
				f.net.Deliver(other, w)
			}
		} else {
			apiErr = f.m.RestartDataTransferChannel(bg, chid)
		}
		settle()
		after := f.view(chid)
		// 1. same channel: identity and progress untouched, no new channel
		if after == nil {
			c.Violation("C10", "channel-lost-on-restart", "channel gone after restart")
			f.m.Stop(bg)
			return
		}
		if lateFired {
			// progress recorded from the late blocks is not the restart's doing: compare identity only, and
			// take the recorded progress as it stands now as what the skip count must say
			c.Count("blocks_recorded_during_restart_validation", lateBlocks)
			before.Received, before.RecvIdx = after.Received, after.RecvIdx
		}
		if d := identityDiff(before, after); len(d) > 0 {
			c.Violation("C10", fmt.Sprintf("restart-altered-channel %v", d), "restart (%s, remote=%v, reopened=%v) changed %v", rl, remote, reopen, d)
		}
		if n := channelKeys(f.ds); n != nkeys {
			c.Violation("C10", "restart-created-channel", "restart created %d new channel record(s)", n-nkeys)
		}
		gsNew := f.gs.Calls()[ngs:]
		var newReq *doubles.GSCall
		for i := range gsNew {
			if gsNew[i].Op == "request" {
				newReq = &gsNew[i]
			}
		}
		revalidated := false
		for _, vc := range f.val.Calls()[nval:] {
			if vc.Kind == "restart" && vc.Chid == chid {
				revalidated = true
			}
		}
		accepted := outcome != 3
		checkReissued := func(m datatransfer.Message, how string) {
			rq, ok := m.(datatransfer.Request)
			if !ok || !rq.IsRestart() {
				c.Violation("C10", "reissued-request-not-marked-restart "+how, "re-issued message is not a restart request: %v", kinds(m))
				return
			}
			if rq.TransferID() != chid.ID || rq.IsPull() != rl.Pull {
				c.Violation("C10", "reissued-request-identity "+how, "re-issued request has id %d pull=%v, channel has id %d pull=%v", rq.TransferID(), rq.IsPull(), chid.ID, rl.Pull)
			}
			vn, _ := rq.Voucher()
			if got := (doubles.TV{Type: string(rq.VoucherType()), CBOR: doubles.CBOR(vn)}); got != doubles.TVOf(v) {
				c.Violation("C10", fmt.Sprintf("reissued-request-voucher later=%v", later != nil), "re-issued request carries voucher %v, the channel was opened with %v (a later voucher exists: %v)", got, doubles.TVOf(v), later != nil)
			}
			if rq.BaseCid() != dummyCid {
				c.Violation("C10", "reissued-request-basecid", "re-issued request has base CID %s", rq.BaseCid())
			}
			sn, _ := rq.Selector()
			if doubles.CBOR(sn) != doubles.CBOR(gen.AllSelector) {
				c.Violation("C10", "reissued-request-selector", "re-issued request has a different selector")
			}
		}
		switch {
		case rl.Initiator && rl.Pull:
			if apiErr != nil {
				c.Violation("C10", "restart-api-error", "RestartDataTransferChannel: %v", apiErr)
			} else if newReq == nil {
				c.Violation("C10", "no-new-transport-request", "pull initiator restart issued no graphsync request")
			} else {
				checkReissued(dtMessageOf(*newReq), "pull")
			}
		case rl.Initiator && !rl.Pull:
			found := false
			for _, s := range f.net.Sends(nnet) {
				if rq, ok := s.Msg.(datatransfer.Request); ok && rq.TransferID() == chid.ID && s.Peer == other {
					checkReissued(rq, "push")
					found = true
				}
			}
			if !found || apiErr != nil {
				c.Violation("C10", "push-restart-not-sent", "push initiator restart sent no request (err %v)", apiErr)
			}
		case !rl.Initiator && !remote:
			// a responder asks the initiator to restart, after re-validating
			asked := false
			for _, s := range f.net.Sends(nnet) {
				if rq, ok := s.Msg.(datatransfer.Request); ok && rq.IsRestartExistingChannelRequest() {
					if id, _ := rq.RestartChannelId(); id == chid && s.Peer == other {
						asked = true
					}
				}
			}
			if !revalidated {
				c.Violation("C10", "responder-restart-without-revalidation", "responder restarted without consulting the validator")
			}
			if accepted && (!asked || apiErr != nil) {
				c.Violation("C10", "responder-did-not-ask-initiator", "responder restart: no restart-existing-channel request to the initiator (err %v)", apiErr)
			}
			if !accepted && (asked || apiErr == nil) {
				c.Violation("C10", "rejected-local-restart-proceeded", "validator rejected the restart but asked=%v err=%v", asked, apiErr)
			}
		case remote:
			if !revalidated {
				detail := ""
				if act != nil {
					detail = fmt.Sprintf(" (hook: terminated=%v validated=%v paused=%v)", act.TerminationError, act.Validated, act.Paused)
				}
				c.Violation("C10", "restart-request-without-revalidation", "incoming restart request continued without a validator call%s; channel before %s", detail, before)
			}
			if accepted {
				if rl.Pull {
					ok := false
					for _, e := range act.SentExtensions {
						if m, err := message.FromIPLD(e.Data); err == nil {
							if rs, isr := m.(datatransfer.Response); isr && rs.IsRestart() && rs.Accepted() {
								ok = true
							}
						}
					}
					if !ok {
						c.Violation("C10", "restart-request-not-answered", "accepted incoming restart (pull): no accepted restart response among the request's extensions")
					}
				} else if newReq == nil {
					c.Violation("C10", "no-new-transport-request", "accepted incoming restart (push): responder issued no new graphsync request")
				}
			} else {
				if after.Status != datatransfer.Failed && after.Status != datatransfer.Failing {
					c.Violation("C10", "rejected-restart-channel-not-failed", "rejected incoming restart: channel is %s", after.Status)
				}
				if newReq != nil {
					c.Violation("C10", "rejected-restart-reopened-transport", "rejected incoming restart still opened a graphsync request")
				}
			}
		}
		// 4./5. the receiving side's new request: skip count and cancel-before-request
		if newReq != nil && weRequest {
			n, ok := skipCountOf(*newReq)
			if !ok {
				c.Violation("C10", "no-skip-extension", "restart request carries no do-not-send-first-blocks extension")
			} else if n != before.RecvIdx {
				c.Violation("C10", fmt.Sprintf("skip-count-mismatch reopened=%v", reopen), "sender told to skip %d blocks, %d were recorded as received", n, before.RecvIdx)
			}
			if !reopen && prev == 0 {
				cancelled := false
				for _, gc := range gsNew {
					if gc.Op == "cancel" && gc.ID == firstReq {
						if gc.Ret > newReq.Call {
							c.Violation("C10", "new-request-before-cancel-finished", "new graphsync request issued (stamp %d) before the cancel of the previous one returned (stamp %d)", newReq.Call, gc.Ret)
						}
						cancelled = true
					}
				}
				if !cancelled {
					c.Violation("C10", "previous-request-not-cancelled", "previous graphsync request still live but not cancelled before the restart request")
				}
				c.Count("cancel_then_request", 1)
			}
			c.Count("skip_checks", 1)
			// 4b. the restarted request replays, from position 1, blocks the receiver already holds (served from
			// its own store: not on the wire, not unique); the replay has only partly caught up when the
			// channel is restarted again. The recorded progress is still what it was, and so is the skip count.
			if rl.Initiator && !reopen && before.RecvIdx >= 2 && accepted && apiErr == nil {
				k := 1 + r.Intn(int(before.RecvIdx)-1)
				for i := 1; i <= k; i++ {
					f.gs.IncomingBlockHook(other, doubles.Resp(newReq.ID, nil, graphsync.PartialResponse), doubles.Block(uint64(100+i), int64(i), false), &testharness.FakeIncomingBlockHookActions{})
				}
				settle()
				if v2 := f.view(chid); v2 != nil && (v2.RecvIdx != before.RecvIdx || v2.Received != before.Received) {
					c.Violation("C10", "replay-after-restart-altered-progress", "replay of the first %d of %d held blocks after the restart changed the recorded progress: index %d -> %d, bytes %d -> %d", k, before.RecvIdx, before.RecvIdx, v2.RecvIdx, before.Received, v2.Received)
				}
				ngs2 := f.gs.Len()
				if err := f.m.RestartDataTransferChannel(bg, chid); err == nil {
					settle()
					for _, gc := range f.gs.Calls()[ngs2:] {
						if gc.Op == "request" {
							if n2, ok := skipCountOf(gc); ok && n2 != before.RecvIdx {
								c.Violation("C10", "skip-count-mismatch second-restart", "second restart during the replay: sender told to skip %d blocks, %d are recorded as received", n2, before.RecvIdx)
							}
							c.Count("second_restart_during_replay", 1)
						}
					}
				}
			}
		}
		// 6. messages queued while the requester was away: delivered once on its next request
		if remote && rl.Pull && queued > 0 && accepted {
			cnt := 0
			for _, e := range act.SentExtensions {
				if m, err := message.FromIPLD(e.Data); err == nil && m.IsUpdate() {
					cnt++
				}
			}
			if cnt != queued {
				c.Violation("C10", fmt.Sprintf("queued-messages-delivered %d of %d", cnt, queued), "%d messages were queued while the requester was away, its next request got %d", queued, cnt)
			}
			// and not again on a later request
			f.gs.RequestorCancelledListener(other, doubles.Req(inID, nil))
			rr, _ := message.NewRequest(chid.ID, true, true, &v, dummyCid, gen.AllSelector)
			_, act2 := incoming(rr)
			settle()
			for _, e := range act2.SentExtensions {
				if m, err := message.FromIPLD(e.Data); err == nil && m.IsUpdate() {
					c.Violation("C10", "queued-messages-delivered-twice", "a message queued for the requester was delivered again on a later request")
					break
				}
			}
			c.Count("queued_message_checks", 1)
		}
		c.Count("restarts", 1)
		c.Mark("role=%s reopen=%v prev=%d blocks=%d remote=%v out=%v later=%v", rl, reopen, prev, min(nblocks, 2), remote, accepted, later != nil)
		c.NonTrivial()
		if c.Index < 3 {
			c.Sample(map[string]any{"role": rl.String(), "reopened": reopen, "previous_request": prev, "blocks": nblocks, "remote_restart": remote, "validator_accepts": accepted, "status_before": before.Status.String(), "status_after": after.Status.String()})
		}
		f.m.Stop(bg)
		for _, gc := range f.gs.Calls() {
			if gc.Op == "request" {
				f.gs.Complete(gc.ID, nil)
			}
		}
		time.Sleep(time.Minute)
	})
}

// TestC10Cleanup: restarting a channel that is cleaning up only finishes the cleanup.
func TestC10Cleanup(t *testing.T) {
	vf.Run(t, "C10Cleanup", vf.Opts{Bubble: true, DefaultN: 12}, func(c *vf.Case) {
		r := c.Rng
		rl := allRoles[c.Index%4]
		st := []datatransfer.Status{datatransfer.Cancelling, datatransfer.Failing, datatransfer.Completing}[(c.Index/4)%3]
		peers := gen.Peers(r, 2)
		self, other := peers[0], peers[1]
		chid := datatransfer.ChannelID{Initiator: self, Responder: other, ID: datatransfer.TransferID(1 + r.Intn(1<<30))}
		if !rl.Initiator {
			chid = datatransfer.ChannelID{Initiator: other, Responder: self, ID: chid.ID}
		}
		ds := doubles.NewRecDS()
		ds.Put(bg, datastore.NewKey("/versions/current"), []byte("3"))
		ds.Put(bg, datastore.NewKey("/3/"+chid.String()), cborx.Encode(mkV3(self, chid, rl.Pull, st, false, false, nil)))
		f := newMgrFix(c, self, ds)
		err := f.m.RestartDataTransferChannel(bg, chid)
		settle()
		v := f.view(chid)
		want := st + 1
		if err != nil || v == nil || v.Status != want {
			c.Violation("C10", fmt.Sprintf("cleanup-not-finished-on-restart %s", st), "restart of a %s channel persisted in %s: err=%v, now %v, want %s", rl, st, err, v, want)
		}
		for _, tc := range f.tp.Calls() {
			if tc.Op == "open" {
				c.Violation("C10", "restart-of-cleaning-channel-reopened-transport", "restart of a channel in %s opened the transport", st)
			}
		}
		for _, s := range f.net.Sends(0) {
			if _, ok := s.Msg.(datatransfer.Request); ok {
				c.Violation("C10", "restart-of-cleaning-channel-sent-request", "restart of a channel in %s sent a request", st)
			}
		}
		if n := doubles.CountOp(f.tp.Calls(), "cleanup", chid); n != 1 {
			c.Violation("C10", fmt.Sprintf("restart-cleanup-count %d", n), "restart of a channel in %s ran transport cleanup %d times", st, n)
		}
		c.Count("cleanup_restarts", 1)
		c.Mark("role=%s st=%s", rl, st)
		c.NonTrivial()
		if c.Index < 1 {
			c.Sample(map[string]any{"role": rl.String(), "persisted_status": st.String(), "after_restart": fmt.Sprint(v)})
		}
		f.checkProbes()
		f.stop()
	})
}

var _ = peer.ID("")

// TestC10Overlap (real clock): two restarts of the same channel reach the transport overlapping in
// time (a user restart racing the monitor's, or the responder's restart-existing request), while
// graphsync takes a moment to confirm each cancel. However they interleave, "any previous transport
// request for the channel is cancelled before the new one starts": at the end exactly one graphsync
// request of the channel has not been cancelled, and it is the last one issued.
func TestC10Overlap(t *testing.T) {
	vf.Run(t, "C10Overlap", vf.Opts{Bubble: false, DefaultN: 8}, func(c *vf.Case) {
		r := c.Rng
		peers := gen.Peers(r, 2)
		self, other := peers[0], peers[1]
		f := newTrFix(c, self)
		v := gen.SimpleVoucher("VT0", "v")
		initiator := c.Index%2 == 0 // pull initiator / push responder: the two roles that issue the graphsync request
		chid := datatransfer.ChannelID{Initiator: self, Responder: other, ID: datatransfer.TransferID(1 + r.Intn(1<<20))}
		mk := func(restart bool) datatransfer.Message {
			if initiator {
				m, _ := message.NewRequest(chid.ID, restart, true, &v, dummyCid, gen.AllSelector)
				return m
			}
			m, _ := message.NewResponse(chid.ID, true, false, nil)
			return m
		}
		if !initiator {
			chid = datatransfer.ChannelID{Initiator: other, Responder: self, ID: chid.ID}
		}
		if err := f.tr.OpenChannel(bg, other, chid, dummyLink, gen.AllSelector, nil, mk(false)); err != nil {
			panic(err)
		}
		f.gs.Stall = time.Duration(20+r.Intn(120)) * time.Millisecond // graphsync confirms a cancel after a moment
		n := 2 + r.Intn(2)
		gaps := make([]time.Duration, n)
		for i := range gaps {
			gaps[i] = time.Duration(r.Intn(60)) * time.Millisecond
		}
		ok := c.HangCheck("C10", "overlapping-restarts", 30*time.Second, func() {
			var wg sync.WaitGroup
			for i := 0; i < n; i++ {
				wg.Add(1)
				go func(i int) {
					defer wg.Done()
					time.Sleep(gaps[i])
					f.tr.OpenChannel(bg, other, chid, dummyLink, gen.AllSelector, nil, mk(true))
				}(i)
			}
			wg.Wait()
		})
		if ok {
			time.Sleep(50 * time.Millisecond)
			cancelled := map[graphsync.RequestID]bool{}
			var issued []graphsync.RequestID
			for _, gc := range f.gs.Calls() {
				switch gc.Op {
				case "request":
					issued = append(issued, gc.ID)
				case "cancel":
					cancelled[gc.ID] = true
				}
			}
			live := 0
			for _, id := range issued {
				if !cancelled[id] {
					live++
				}
			}
			if live != 1 {
				c.Violation("C10", fmt.Sprintf("overlapping-restarts-left-%d-live-requests", live), "%d overlapping restarts (cancel takes %v): %d graphsync requests issued, %d never cancelled - want exactly the newest one", n, f.gs.Stall, len(issued), live)
			} else if cancelled[issued[len(issued)-1]] {
				c.Violation("C10", "newest-request-cancelled", "the newest graphsync request of the channel was cancelled, an older one is still live")
			}
			c.Count("overlapping_restarts", n)
			c.Count("requests_issued_under_overlap", len(issued))
		}
		c.Mark("initiator=%v n=%d", initiator, n)
		c.NonTrivial()
		if c.Index < 2 {
			c.Sample(map[string]any{"engine": "overlapping restarts (real clock)", "we_initiated": initiator, "restarts": n, "cancel_takes": f.gs.Stall.String()})
		}
		f.gs.Stall = 0
		c.HangCheck("C10", "transport-shutdown", 20*time.Second, func() { f.tr.Shutdown(bg) })
	})
}
