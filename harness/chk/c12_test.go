package chk

import (
	"bytes"
	"encoding/hex"
	"errors"
	"fmt"
	"math"
	"math/rand"
	"testing"

	"github.com/ipfs/go-cid"
	"github.com/ipfs/go-graphsync"
	"github.com/ipld/go-ipld-prime/datamodel"
	"github.com/libp2p/go-libp2p/core/peer"

	datatransfer "github.com/filecoin-project/go-data-transfer/v2"
	"github.com/filecoin-project/go-data-transfer/v2/message"
	"github.com/filecoin-project/go-data-transfer/v2/message/types"
	"github.com/filecoin-project/go-data-transfer/v2/transport/graphsync/extension"

	"verif/harness/internal/cborx"
	"verif/harness/internal/doubles"
	"verif/harness/internal/gen"
	"verif/harness/internal/vf"
)

// ---- C12: wire format lossless, stable, safe to decode ---------------------------------------

// msgView is every observable of a message, rendered comparably.
type msgView struct {
	IsRequest                            bool
	New, Restart, Update, Cancel, Paused bool
	TransferID                           uint64
	Pull, Voucher, RestartExisting       bool // request only
	VType                                string
	VoucherCBOR, SelectorCBOR            string
	BaseCid                              string
	RestartChid                          string
	Complete, ValidationResult, Accepted bool // response only
	EmptyVRes                            bool
	panicAt                              string
}

func viewMsg(m datatransfer.Message) (v msgView) {
	try := func(name string, f func()) {
		defer func() {
			if r := recover(); r != nil && v.panicAt == "" {
				v.panicAt = fmt.Sprintf("%s: %v", name, r)
			}
		}()
		f()
	}
	try("IsRequest", func() { v.IsRequest = m.IsRequest() })
	try("IsNew", func() { v.New = m.IsNew() })
	try("IsRestart", func() { v.Restart = m.IsRestart() })
	try("IsUpdate", func() { v.Update = m.IsUpdate() })
	try("IsCancel", func() { v.Cancel = m.IsCancel() })
	try("IsPaused", func() { v.Paused = m.IsPaused() })
	try("TransferID", func() { v.TransferID = uint64(m.TransferID()) })
	if rq, ok := m.(datatransfer.Request); ok {
		try("IsPull", func() { v.Pull = rq.IsPull() })
		try("IsVoucher", func() { v.Voucher = rq.IsVoucher() })
		try("IsRestartExistingChannelRequest", func() { v.RestartExisting = rq.IsRestartExistingChannelRequest() })
		try("VoucherType", func() { v.VType = string(rq.VoucherType()) })
		try("Voucher", func() { n, _ := rq.Voucher(); v.VoucherCBOR = doubles.CBOR(n) })
		try("TypedVoucher", func() { rq.TypedVoucher() })
		try("Selector", func() { n, _ := rq.Selector(); v.SelectorCBOR = doubles.CBOR(n) })
		try("BaseCid", func() { v.BaseCid = rq.BaseCid().String() })
		try("RestartChannelId", func() {
			c, err := rq.RestartChannelId()
			if err == nil {
				v.RestartChid = hex.EncodeToString([]byte(c.Initiator)) + "/" + hex.EncodeToString([]byte(c.Responder)) + "/" + fmt.Sprint(uint64(c.ID))
			}
		})
	}
	if rs, ok := m.(datatransfer.Response); ok {
		try("IsComplete", func() { v.Complete = rs.IsComplete() })
		try("IsValidationResult", func() { v.ValidationResult = rs.IsValidationResult() })
		try("Accepted", func() { v.Accepted = rs.Accepted() })
		try("VoucherResultType", func() { v.VType = string(rs.VoucherResultType()) })
		try("VoucherResult", func() { n, _ := rs.VoucherResult(); v.VoucherCBOR = doubles.CBOR(n) })
		try("EmptyVoucherResult", func() { v.EmptyVRes = rs.EmptyVoucherResult() })
	}
	try("ToIPLD", func() { m.ToIPLD() })
	try("ToNet", func() { var b bytes.Buffer; m.ToNet(&b) })
	return
}

// kinds returns which of the exclusive kinds a message satisfies.
func kinds(m datatransfer.Message) []string {
	var k []string
	add := func(n string, b bool) {
		if b {
			k = append(k, n)
		}
	}
	add("new", m.IsNew())
	add("restart", m.IsRestart())
	add("update", m.IsUpdate())
	add("cancel", m.IsCancel())
	if rq, ok := m.(datatransfer.Request); ok {
		add("voucher", rq.IsVoucher() && !rq.IsNew())
		add("restart-existing", rq.IsRestartExistingChannelRequest())
	}
	if rs, ok := m.(datatransfer.Response); ok {
		add("complete", rs.IsComplete())
		add("voucher-result", rs.IsValidationResult() && !rs.IsNew() && !rs.IsRestart() && !rs.IsComplete())
	}
	return k
}

var edgeIDs = []uint64{0, 1, 23, 24, 255, 256, 65535, 65536, 1 << 31, 1<<32 - 1, 1 << 32, 1<<63 - 1, 1 << 63, 1<<64 - 1}

func genID(r *rand.Rand) uint64 {
	if r.Intn(2) == 0 {
		return gen.Pick(r, edgeIDs)
	}
	return r.Uint64()
}

func genType(r *rand.Rand) string {
	switch r.Intn(7) {
	case 6:
		return "" // a type identifier is any string, the empty one included
	case 0:
		return "T"
	case 1:
		b := make([]byte, 200+r.Intn(300))
		for i := range b {
			b[i] = byte('a' + r.Intn(26))
		}
		return string(b)
	case 2:
		return "vöucher/тип/类型"
	default:
		return fmt.Sprintf("type-%d", r.Intn(1000))
	}
}

type fakeExt map[graphsync.ExtensionName]datamodel.Node

func (f fakeExt) Extension(n graphsync.ExtensionName) (datamodel.Node, bool) {
	d, ok := f[n]
	return d, ok
}

// builtMsg is a constructed message with the plain values it was built from (for the
// independent encoder) and its expected kind.
type builtMsg struct {
	ctor   string
	m      datatransfer.Message
	kind   string
	expect cborx.M // expected wire form from the published schema
}

func plainVoucher(r *rand.Rand) (any, datamodel.Node) {
	p := gen.Plain(r, 3)
	return cborx.FromPlain(p), gen.ToNode(p)
}

func reqMap(typ uint64, id uint64, pause, pull bool, bcid any, stor any, vouch any, vtyp string, rc cborx.L) cborx.M {
	if rc == nil {
		rc = cborx.L{"", "", uint64(0)}
	}
	return cborx.M{"IsRq": true, "Response": nil, "Request": cborx.M{
		"BCid": bcid, "Type": typ, "Paus": pause, "Part": false, "Pull": pull, "Stor": stor, "Vouch": vouch,
		"VTyp": vtyp, "XferID": id, "RestartChannel": rc}}
}

func respMap(typ uint64, id uint64, acpt, paus bool, vres any, vtyp string) cborx.M {
	return cborx.M{"IsRq": false, "Request": nil, "Response": cborx.M{
		"Type": typ, "Acpt": acpt, "Paus": paus, "XferID": id, "VRes": vres, "VTyp": vtyp}}
}

// buildMsg constructs one message through one of the library's 12 constructors.
func buildMsg(r *rand.Rand, which int) builtMsg {
	id := genID(r)
	tid := datatransfer.TransferID(id)
	flagA, flagB := r.Intn(2) == 0, r.Intn(2) == 0
	vp, vn := plainVoucher(r)
	vtyp := genType(r)
	tv := &datatransfer.TypedVoucher{Voucher: vn, Type: datatransfer.TypeIdentifier(vtyp)}
	noVoucher := r.Intn(6) == 0
	if noVoucher {
		tv, vp, vtyp = nil, nil, ""
	}
	switch which {
	case 0: // NewRequest (new or restart)
		var c cid.Cid
		if r.Intn(4) == 0 {
			c = gen.CidV0(r)
		} else {
			c = gen.Cid(r)
		}
		sp, sn := plainVoucher(r)
		if r.Intn(3) == 0 {
			sn = gen.AllSelector
			var d any
			d, _ = cborx.Decode(mustHex(doubles.CBOR(sn)))
			sp = d
		}
		m, err := message.NewRequest(tid, flagA, flagB, tv, c, sn)
		if err != nil {
			panic(err)
		}
		typ, kind := uint64(types.NewMessage), "new"
		if flagA {
			typ, kind = uint64(types.RestartMessage), "restart"
		}
		return builtMsg{"NewRequest", m, kind, reqMap(typ, id, false, flagB, c, sp, vp, vtyp, nil)}
	case 1:
		ps := gen.Peers(r, 2)
		ch := datatransfer.ChannelID{Initiator: ps[0], Responder: ps[1], ID: tid}
		if r.Intn(5) == 0 {
			ch.Initiator = peer.ID("") // unusual but constructible
		}
		m := message.RestartExistingChannelRequest(ch)
		return builtMsg{"RestartExistingChannelRequest", m, "restart-existing",
			reqMap(uint64(types.RestartExistingChannelRequestMessage), 0, false, false, nil, nil, nil, "", cborx.L{cborx.Txt(ch.Initiator), cborx.Txt(ch.Responder), id})}
	case 2:
		return builtMsg{"CancelRequest", message.CancelRequest(tid), "cancel", reqMap(uint64(types.CancelMessage), id, false, false, nil, nil, nil, "", nil)}
	case 3:
		return builtMsg{"UpdateRequest", message.UpdateRequest(tid, flagA), "update", reqMap(uint64(types.UpdateMessage), id, flagA, false, nil, nil, nil, "", nil)}
	case 4:
		m, _ := message.VoucherRequest(tid, tv)
		return builtMsg{"VoucherRequest", m, "voucher", reqMap(uint64(types.VoucherMessage), id, false, false, nil, nil, vp, vtyp, nil)}
	case 5:
		m, _ := message.RestartResponse(tid, flagA, flagB, tv)
		return builtMsg{"RestartResponse", m, "restart", respMap(uint64(types.RestartMessage), id, flagA, flagB, vp, vtyp)}
	case 6:
		m, _ := message.NewResponse(tid, flagA, flagB, tv)
		return builtMsg{"NewResponse", m, "new", respMap(uint64(types.NewMessage), id, flagA, flagB, vp, vtyp)}
	case 7:
		m, _ := message.VoucherResultResponse(tid, flagA, flagB, tv)
		return builtMsg{"VoucherResultResponse", m, "voucher-result", respMap(uint64(types.VoucherResultMessage), id, flagA, flagB, vp, vtyp)}
	case 8:
		return builtMsg{"UpdateResponse", message.UpdateResponse(tid, flagA), "update", respMap(uint64(types.UpdateMessage), id, false, flagA, nil, "")}
	case 9:
		return builtMsg{"CancelResponse", message.CancelResponse(tid), "cancel", respMap(uint64(types.CancelMessage), id, false, false, nil, "")}
	case 10:
		m, _ := message.CompleteResponse(tid, flagA, flagB, tv)
		return builtMsg{"CompleteResponse", m, "complete", respMap(uint64(types.CompleteMessage), id, flagA, flagB, vp, vtyp)}
	default: // ValidationResultResponse
		mt := gen.Pick(r, []types.MessageType{types.NewMessage, types.RestartMessage, types.VoucherResultMessage, types.CompleteMessage})
		res := datatransfer.ValidationResult{Accepted: flagA, VoucherResult: tv, ForcePause: r.Intn(2) == 0, DataLimit: r.Uint64(), RequiresFinalization: r.Intn(2) == 0}
		var verr error
		if r.Intn(3) == 0 {
			verr = errors.New("validation failed")
		}
		m, _ := message.ValidationResultResponse(mt, tid, res, verr, flagB)
		kind := map[types.MessageType]string{types.NewMessage: "new", types.RestartMessage: "restart", types.VoucherResultMessage: "voucher-result", types.CompleteMessage: "complete"}[mt]
		want := verr == nil && flagA
		b := builtMsg{"ValidationResultResponse", m, kind, respMap(uint64(mt), id, want, flagB, vp, vtyp)}
		if m.Accepted() != want {
			b.kind = "ACCEPTED-MISMATCH:" + kind
		}
		return b
	}
}

func mustHex(s string) []byte {
	b, err := hex.DecodeString(s)
	if err != nil {
		panic(err)
	}
	return b
}

// shuffleKeys re-encodes a cborx.M tree with a random key order at every level.
func shuffleKeys(r *rand.Rand, v any) any {
	switch x := v.(type) {
	case cborx.M:
		var om cborx.OM
		for k, e := range x {
			om = append(om, cborx.KV{K: k, V: shuffleKeys(r, e)})
		}
		r.Shuffle(len(om), func(i, j int) { om[i], om[j] = om[j], om[i] })
		return om
	case cborx.L:
		out := make(cborx.L, len(x))
		for i, e := range x {
			out[i] = shuffleKeys(r, e)
		}
		return out
	}
	return v
}

func TestC12RoundTrip(t *testing.T) {
	vf.Run(t, "C12RoundTrip", vf.Opts{DefaultN: 50}, func(c *vf.Case) {
		const per = 24
		for i := 0; i < per; i++ {
			which := (c.Index*per + i) % 12
			b := buildMsg(c.Rng, which)
			c.Count("ctor."+b.ctor, 1)
			orig := viewMsg(b.m)
			if orig.panicAt != "" {
				c.Violation("C12", "accessor-panic "+b.ctor, "constructed message: %s", orig.panicAt)
				continue
			}
			if len(b.kind) > 17 && b.kind[:17] == "ACCEPTED-MISMATCH" {
				c.Violation("C12", "validation-response-accepted", "ValidationResultResponse.Accepted() does not equal (err==nil && result.Accepted)")
			}
			ks := kinds(b.m)
			if len(ks) != 1 || (ks[0] != b.kind && b.kind[:3] != "ACC") {
				c.Violation("C12", "kind-not-exclusive "+b.ctor, "%s message classified as %v, want exactly [%s]", b.ctor, ks, b.kind)
			}
			// an earlier send that failed half-way (stream reset after k bytes) must leave no trace in
			// what the process encodes next
			if c.Rng.Intn(3) == 0 {
				prior := buildMsg(c.Rng, c.Rng.Intn(12))
				fw := &failingWriter{after: c.Rng.Intn(40)}
				if err := prior.m.ToNet(fw); err != nil {
					c.Count("failed_writes_before_encode", 1)
				}
			}
			// network form
			var buf bytes.Buffer
			if err := b.m.ToNet(&buf); err != nil {
				c.Violation("C12", "encode-error "+b.ctor, "ToNet: %v", err)
				continue
			}
			wire := append([]byte(nil), buf.Bytes()...)
			want := cborx.Encode(b.expect)
			if !bytes.Equal(wire, want) {
				c.Violation("C12", "wire-bytes-differ "+b.ctor, "encoded bytes differ from the schema-derived encoding\n got  %x\n want %x", wire, want)
			}
			m2, err := message.FromNet(bytes.NewReader(wire))
			if err != nil {
				c.Violation("C12", "decode-error net "+b.ctor, "FromNet of own encoding: %v", err)
				continue
			}
			cmp := func(form string, m datatransfer.Message) {
				got := viewMsg(m)
				if got != orig {
					c.Violation("C12", "roundtrip-differs "+form+" "+b.ctor, "%s round trip changed the message:\n before %+v\n after  %+v", form, orig, got)
				}
			}
			cmp("net", m2)
			// IPLD form
			m3, err := message.FromIPLD(b.m.ToIPLD())
			if err != nil {
				c.Violation("C12", "decode-error ipld "+b.ctor, "FromIPLD(ToIPLD): %v", err)
			} else {
				cmp("ipld", m3)
			}
			// graphsync extension form
			names := []graphsync.ExtensionName{extension.ExtensionDataTransfer1_1, extension.ExtensionIncomingRequest1_1, extension.ExtensionOutgoingBlock1_1}
			c.Rng.Shuffle(len(names), func(i, j int) { names[i], names[j] = names[j], names[i] })
			names = names[:1+c.Rng.Intn(3)]
			exts, err := extension.ToExtensionData(b.m, names)
			if err != nil || len(exts) != len(names) {
				c.Violation("C12", "extension-encode "+b.ctor, "ToExtensionData: %v (%d of %d)", err, len(exts), len(names))
			} else {
				fe := fakeExt{}
				for _, e := range exts {
					fe[e.Name] = e.Data
				}
				m4, err := extension.GetTransferData(fe, names)
				if err != nil || m4 == nil {
					c.Violation("C12", "extension-decode "+b.ctor, "GetTransferData: %v", err)
				} else {
					cmp("extension", m4)
				}
			}
			// any key order decodes to the same message
			perm := cborx.Encode(shuffleKeys(c.Rng, b.expect))
			m5, err := message.FromNet(bytes.NewReader(perm))
			if err != nil {
				c.Violation("C12", "decode-error permuted "+b.ctor, "FromNet of key-permuted encoding: %v", err)
			} else {
				cmp("permuted", m5)
			}
			c.Mark("%s/%s id=%d v=%v", b.ctor, b.kind, bitsClass(orig.TransferID), orig.VoucherCBOR != "f6")
		}
		c.NonTrivial()
		if c.Index < 2 {
			b := buildMsg(c.Rng, c.Index*5)
			var buf bytes.Buffer
			b.m.ToNet(&buf)
			c.Sample(map[string]any{"ctor": b.ctor, "kind": b.kind, "wire_hex": hex.EncodeToString(buf.Bytes()), "view": fmt.Sprintf("%+v", viewMsg(b.m))})
		}
	})
}

func bitsClass(x uint64) int {
	if x == 0 {
		return 0
	}
	return int(math.Log2(float64(x)))/8 + 1
}

// ---- hostile input ---------------------------------------------------------------------------

// mutate applies one structure-aware mutation to a valid message tree.
func mutate(r *rand.Rand, m cborx.M) any {
	cp := func(x cborx.M) cborx.M {
		o := cborx.M{}
		for k, v := range x {
			o[k] = v
		}
		return o
	}
	top := cp(m)
	body := "Request"
	if top["Request"] == nil {
		body = "Response"
	}
	inner, _ := top[body].(cborx.M)
	if inner != nil {
		inner = cp(inner)
		top[body] = inner
	}
	junk := []any{nil, true, int64(-1), uint64(1 << 63), "x", []byte{1}, cborx.L{}, cborx.M{}, 3.5, gen.Cid(r)}
	switch r.Intn(14) {
	case 0: // null body
		top[body] = nil
	case 1: // both bodies
		if body == "Request" {
			top["Response"] = respMap(0, 1, true, false, nil, "")["Response"]
		} else {
			top["Request"] = reqMap(0, 1, false, false, nil, nil, nil, "", nil)["Request"]
		}
	case 2: // wrong IsRq
		top["IsRq"] = !(top["IsRq"].(bool))
	case 3: // delete a top-level field
		ks := []string{"IsRq", "Request", "Response"}
		delete(top, gen.Pick(r, ks))
	case 4: // delete an inner field
		if inner != nil {
			for k := range inner {
				if r.Intn(3) == 0 {
					delete(inner, k)
					break
				}
			}
		}
	case 5: // type swap of an inner field
		if inner != nil {
			for k := range inner {
				if r.Intn(3) == 0 {
					inner[k] = gen.Pick(r, junk)
					break
				}
			}
		}
	case 6: // unknown message type number
		if inner != nil {
			inner["Type"] = uint64(8 + r.Intn(1000))
			if r.Intn(3) == 0 {
				inner["Type"] = uint64(math.MaxUint64)
			}
		}
	case 7: // body of wrong shape
		top[body] = gen.Pick(r, junk)
	case 8: // extra unknown fields
		top["Extra"] = gen.Pick(r, junk)
		if inner != nil {
			inner["Zzz"] = gen.Pick(r, junk)
		}
	case 9: // IsRq of wrong type
		top["IsRq"] = gen.Pick(r, junk)
	case 10: // restart channel tuple of wrong arity / types
		if inner != nil {
			inner["RestartChannel"] = gen.Pick(r, []any{cborx.L{}, cborx.L{"a"}, cborx.L{"a", "b", "c"}, cborx.L{"a", "b", uint64(1), uint64(2)}, cborx.M{}, nil})
		}
	case 11: // negative / huge ids
		if inner != nil {
			inner["XferID"] = gen.Pick(r, []any{int64(-1), int64(math.MinInt64), 1.5, "7"})
		}
	case 12: // top level is not a map
		return gen.Pick(r, junk)
	case 13: // both null
		top["Request"], top["Response"] = nil, nil
	}
	return top
}

// probeDecoded calls every accessor of a message a decoder returned with a nil error.
func probeDecoded(c *vf.Case, where string, m datatransfer.Message, input []byte) {
	if m == nil {
		c.Violation("C12", "decoder-nil-message "+where, "decoder returned (nil, nil) for %x", input)
		return
	}
	v := viewMsg(m)
	if v.panicAt != "" {
		c.Violation("C12", "decoded-message-unusable "+where, "decoder accepted %x but accessor panicked: %s", input, v.panicAt)
	}
}

func TestC12Hostile(t *testing.T) {
	vf.Run(t, "C12Hostile", vf.Opts{DefaultN: 50}, func(c *vf.Case) {
		const per = 400
		acceptedN, rejectedN := 0, 0
		try := func(where string, input []byte, f func() (datatransfer.Message, error)) {
			var m datatransfer.Message
			var err error
			p, val, stack := vf.Recover(func() { m, err = f() })
			if p {
				c.Violation("C12", "decoder-panic "+where+" "+vf.TopLibFrame(stack), "decoder panicked on %x: %v", input, val)
				return
			}
			if err == nil {
				acceptedN++
				probeDecoded(c, where, m, input)
			} else {
				rejectedN++
			}
		}
		for i := 0; i < per; i++ {
			base := buildMsg(c.Rng, c.Rng.Intn(12))
			var input []byte
			var tree any
			switch c.Rng.Intn(10) {
			case 0, 1, 2, 3, 4: // structure-aware
				tree = mutate(c.Rng, base.expect)
				if c.Rng.Intn(3) == 0 {
					tree = shuffleKeys(c.Rng, tree)
				}
				input = cborx.Encode(tree)
				c.Count("structured", 1)
			case 5: // truncation
				full := cborx.Encode(base.expect)
				input = full[:c.Rng.Intn(len(full))]
				c.Count("truncated", 1)
			case 6: // trailing bytes / concatenation
				full := cborx.Encode(base.expect)
				extra := make([]byte, 1+c.Rng.Intn(8))
				c.Rng.Read(extra)
				input = append(full, extra...)
				c.Count("trailing", 1)
			case 7: // byte flips
				input = cborx.Encode(base.expect)
				for k := 0; k < 1+c.Rng.Intn(4); k++ {
					input[c.Rng.Intn(len(input))] ^= byte(1 << c.Rng.Intn(8))
				}
				c.Count("bitflip", 1)
			case 8: // huge declared lengths / indefinite lengths
				heads := [][]byte{{0xbb, 0xff, 0xff, 0xff, 0xff, 0xff, 0xff, 0xff, 0xff}, {0x9b, 0, 0, 0, 0, 0xff, 0xff, 0xff, 0xff}, {0x7b, 0x7f, 0xff, 0xff, 0xff, 0xff, 0xff, 0xff, 0xff},
					{0xbf}, {0x9f}, {0x5f}, {0x7f}, {0xba, 0x7f, 0xff, 0xff, 0xff}, {0xa3, 0x64, 'I', 's', 'R', 'q', 0xbb, 0xff, 0xff, 0xff, 0xff, 0xff, 0xff, 0xff, 0xff}}
				input = append([]byte(nil), gen.Pick(c.Rng, heads)...)
				tail := make([]byte, c.Rng.Intn(16))
				c.Rng.Read(tail)
				input = append(input, tail...)
				c.Count("hugelen", 1)
			default: // random bytes
				input = make([]byte, c.Rng.Intn(64))
				c.Rng.Read(input)
				c.Count("random", 1)
			}
			in := input
			try("FromNet", in, func() (datatransfer.Message, error) { return message.FromNet(bytes.NewReader(in)) })
			// the IPLD path gets a node built (bounded) from the mutated tree, never decoded from hostile bytes
			if tree != nil {
				if nd, ok := nodeFromCborx(tree); ok {
					try("FromIPLD", in, func() (datatransfer.Message, error) { return message.FromIPLD(nd) })
					fe := fakeExt{extension.ExtensionDataTransfer1_1: nd}
					try("GetTransferData", in, func() (datatransfer.Message, error) {
						m, err := extension.GetTransferData(fe, []graphsync.ExtensionName{extension.ExtensionDataTransfer1_1})
						if m == nil && err == nil {
							return nil, errors.New("not found")
						}
						return m, err
					})
				}
			}
		}
		c.Count("accepted", acceptedN)
		c.Count("rejected", rejectedN)
		c.Mark("acc=%d rej=%d", acceptedN/20, rejectedN/20)
		c.Mark("idx=%d", c.Index) // every case is a distinct batch of 400 hostile inputs
		c.NonTrivial()
		if c.Index < 2 {
			tree := mutate(c.Rng, buildMsg(c.Rng, 0).expect)
			c.Sample(map[string]any{"hostile_input_hex": hex.EncodeToString(cborx.Encode(tree)), "batch": per, "accepted": acceptedN, "rejected": rejectedN})
		}
	})
}

// nodeFromCborx converts a cborx tree to an IPLD node (bounded by construction).
func nodeFromCborx(v any) (nd datamodel.Node, ok bool) {
	defer func() {
		if recover() != nil {
			ok = false
		}
	}()
	return gen.ToNode(toPlain(v)), true
}

func toPlain(v any) any {
	switch x := v.(type) {
	case cborx.M:
		var om gen.OMap
		for k, e := range x {
			om = append(om, gen.OKV{K: k, V: toPlain(e)})
		}
		if om == nil {
			om = gen.OMap{}
		}
		return om
	case cborx.OM:
		om := gen.OMap{}
		for _, kv := range x {
			om = append(om, gen.OKV{K: kv.K, V: toPlain(kv.V)})
		}
		return om
	case cborx.L:
		out := make([]any, len(x))
		for i, e := range x {
			out[i] = toPlain(e)
		}
		return out
	case cborx.Txt:
		return string(x)
	case uint64:
		if x > math.MaxInt64 {
			panic("uint64 beyond int64: not representable in basicnode")
		}
		return int64(x)
	case int:
		return int64(x)
	}
	return v
}

// failingWriter accepts `after` bytes and then fails every write (a stream that was reset).
type failingWriter struct{ after, n int }

func (w *failingWriter) Write(p []byte) (int, error) {
	if w.n+len(p) > w.after {
		k := w.after - w.n
		if k < 0 {
			k = 0
		}
		w.n += k
		return k, errors.New("stream reset")
	}
	w.n += len(p)
	return len(p), nil
}
