package chk

import (
	"bytes"
	"context"
	"errors"
	"fmt"
	"strings"
	"sync"
	"sync/atomic"
	"testing"

	cidlink "github.com/ipld/go-ipld-prime/linking/cid"
	"github.com/libp2p/go-libp2p/core/peer"

	datatransfer "github.com/filecoin-project/go-data-transfer/v2"
	"github.com/filecoin-project/go-data-transfer/v2/message"
	"github.com/filecoin-project/go-data-transfer/v2/message/types"

	"verif/harness/internal/cborx"
	"verif/harness/internal/doubles"
	"verif/harness/internal/gen"
	"verif/harness/internal/vf"
)

// ---- C02: terminal statuses are final ---------------------------------------------------------

var terminals = []datatransfer.Status{datatransfer.Completed, datatransfer.Failed, datatransfer.Cancelled}

// closerWithError is the monitor-facing API of the manager (not part of datatransfer.Manager).
type closerWithError interface {
	CloseDataTransferChannelWithError(ctx context.Context, chid datatransfer.ChannelID, cherr error) error
}

// chanToTerminal drives a channels-level channel of role r to the given terminal status.
func chanToTerminal(f *chanFix, chid datatransfer.ChannelID, r role, term datatransfer.Status, variant int) {
	f.cs.Open(chid)
	if variant%2 == 0 {
		f.toOngoing(chid, r)
	}
	switch term {
	case datatransfer.Cancelled:
		f.cs.Cancel(chid)
	case datatransfer.Failed:
		f.cs.Error(chid, errors.New("boom"))
	case datatransfer.Completed:
		if r.Initiator {
			if variant%4 < 2 {
				f.cs.FinishTransfer(chid)
				f.cs.ResponderCompletes(chid)
			} else {
				f.cs.ResponderCompletes(chid)
				f.cs.FinishTransfer(chid)
			}
		} else {
			f.cs.Complete(chid)
		}
	}
	settle()
}

func TestC02Chan(t *testing.T) {
	vf.Run(t, "C02Chan", vf.Opts{Bubble: true, DefaultN: 24}, func(c *vf.Case) {
		r := allRoles[c.Index%4]
		term := terminals[(c.Index/4)%3]
		reopened := (c.Index/12)%2 == 1
		variant := c.Index / 24
		peers := gen.Peers(c.Rng, 2)
		ds := doubles.NewRecDS()
		f := newChanFix(c, ds, peers[0])
		chid, _ := f.create(r, peers[1], datatransfer.TransferID(c.Rng.Uint64()), dummyCid, gen.Voucher(c.Rng, "VT0"))
		chanToTerminal(f, chid, r, term, variant)
		v0 := f.view(chid)
		if v0 == nil || v0.Status != term {
			c.Violation("C02", "route-did-not-terminate", "route to %s for %s ended in %v", term, r, v0)
			return
		}
		if reopened {
			f = f.reopen()
		}
		key := keyFor(ds.Log(), chid)
		bytes0 := ds.Snapshot()[key]
		nev0 := len(f.sub.For(chid))
		nenv0 := len(f.env.Calls())
		order := c.Rng.Perm(numOpKinds)
		seq := 1
		if c.Tier == "thorough" {
			seq = 1 + c.Rng.Intn(3)
		}
		var bc blockCounter
		bc.q, bc.s, bc.r = v0.QueuedIdx, v0.SentIdx, v0.RecvIdx
		for _, k := range order {
			var names []string
			for i := 0; i < seq; i++ {
				op := opByKind(c.Rng, &bc, (k+i*7)%numOpKinds)
				names = append(names, op.Name)
				err := op.Do(f.cs, chid)
				if op.Name == "Cancel" && err != nil {
					c.Violation("C02", "cancel-on-terminal-errors", "Cancel on a %s channel returned %v", term, err)
				}
			}
			settle()
			c.Count("stimuli", 1)
			v := f.view(chid)
			if v == nil {
				c.Violation("C02", "channel-vanished "+names[0], "channel gone after %v", names)
				continue
			}
			if d := doubles.Diff(v0, v, true); len(d) > 0 {
				c.Violation("C02", fmt.Sprintf("terminal-state-changed %s by %s: %v", term, names[0], d), "%s channel (%s) changed %v after %v", term, r, d, names)
			}
			if b := ds.Snapshot()[key]; !bytes.Equal(b, bytes0) {
				c.Violation("C02", fmt.Sprintf("terminal-record-rewritten %s by %s", term, names[0]), "stored record of a %s channel changed after %v", term, names)
			}
			if n := len(f.sub.For(chid)); n != nev0 {
				c.Violation("C02", fmt.Sprintf("event-after-terminal %s by %s", term, names[0]), "%d event(s) emitted for a %s channel after %v: %s", n-nev0, term, names, f.sub.For(chid)[nev0].Code)
				nev0 = n
			}
			if n := len(f.env.Calls()); n != nenv0 {
				c.Violation("C02", fmt.Sprintf("cleanup-after-terminal %s by %s", term, names[0]), "environment called again (%s) for a %s channel after %v", f.env.Calls()[nenv0].Op, term, names)
				nenv0 = n
			}
		}
		c.Mark("role=%s term=%s reopened=%v variant=%d", r, term, reopened, variant%4)
		c.NonTrivial()
		if c.Index < 2 {
			c.Sample(map[string]any{"level": "channels", "role": r.String(), "terminal": term.String(), "reopened": reopened, "stimuli": numOpKinds})
		}
		f.stop()
	})
}

// ---------------------------------------------------------------- manager level

type stim struct {
	name string
	do   func()
}

// mkResponder makes the fixture receive and accept a new request from `other`.
func (f *mgrFix) mkResponder(pull bool, other peer.ID, tid datatransfer.TransferID, v datatransfer.TypedVoucher) datatransfer.ChannelID {
	chid := datatransfer.ChannelID{Initiator: other, Responder: f.self, ID: tid}
	req, err := message.NewRequest(tid, false, pull, &v, dummyCid, gen.AllSelector)
	if err != nil {
		panic(err)
	}
	w, _ := doubles.Reencode(req)
	if pull {
		// pull requests arrive on the transport (graphsync request carrying the dt request)
		f.tp.Events().OnRequestReceived(chid, w.(datatransfer.Request))
	} else {
		f.net.Deliver(other, w)
	}
	settle()
	return chid
}

// accept delivers the responder's acceptance to an initiator channel.
func (f *mgrFix) deliverResponse(chid datatransfer.ChannelID, viaTransport bool, resp datatransfer.Response) error {
	w, _ := doubles.Reencode(resp)
	if viaTransport {
		return f.tp.Events().OnResponseReceived(chid, w.(datatransfer.Response))
	}
	f.net.Deliver(chid.Responder, w)
	return nil
}

// mgrToTerminal drives a manager-level channel to a terminal status. Returns false if the
// route failed (reported by the caller).
func mgrToTerminal(f *mgrFix, chid datatransfer.ChannelID, r role, term datatransfer.Status, variant int) {
	ev := f.tp.Events()
	if r.Initiator {
		switch term {
		case datatransfer.Cancelled:
			if variant%2 == 0 {
				resp, _ := message.NewResponse(chid.ID, true, false, nil)
				f.deliverResponse(chid, r.Pull, resp)
			}
			f.m.CloseDataTransferChannel(bg, chid)
		case datatransfer.Failed:
			if variant%2 == 0 {
				resp, _ := message.NewResponse(chid.ID, false, false, nil)
				f.deliverResponse(chid, r.Pull, resp)
			} else {
				resp, _ := message.NewResponse(chid.ID, true, false, nil)
				f.deliverResponse(chid, r.Pull, resp)
				ev.OnChannelCompleted(chid, errors.New("graphsync failed"))
			}
		case datatransfer.Completed:
			resp, _ := message.NewResponse(chid.ID, true, false, nil)
			f.deliverResponse(chid, r.Pull, resp)
			ev.OnTransferInitiated(chid)
			done, _ := message.CompleteResponse(chid.ID, true, false, nil)
			if variant%2 == 0 {
				ev.OnChannelCompleted(chid, nil)
				f.deliverResponse(chid, false, done)
			} else {
				f.deliverResponse(chid, false, done)
				settle()
				ev.OnChannelCompleted(chid, nil)
			}
		}
	} else {
		switch term {
		case datatransfer.Cancelled:
			if variant%2 == 0 {
				w, _ := doubles.Reencode(message.CancelRequest(chid.ID))
				f.net.Deliver(chid.Initiator, w)
			} else {
				f.m.CloseDataTransferChannel(bg, chid)
			}
		case datatransfer.Failed:
			ev.OnTransferInitiated(chid)
			ev.OnChannelCompleted(chid, errors.New("graphsync failed"))
		case datatransfer.Completed:
			ev.OnTransferInitiated(chid)
			ev.OnChannelCompleted(chid, nil)
		}
	}
	settle()
}

// stimuliFor lists every stimulus that can follow a terminal status for a channel of role r.
func stimuliFor(c *vf.Case, f func() *mgrFix, chid datatransfer.ChannelID, r role, v0 *doubles.StateView, restartReplies *[]datatransfer.Response) []stim {
	other := chid.OtherParty(v0.Self)
	var st []stim
	add := func(n string, do func()) { st = append(st, stim{n, do}) }
	ev := func() datatransfer.EventsHandler { return f().tp.Events() }
	link := cidlink.Link{Cid: dummyCid}
	tv := gen.Voucher(c.Rng, "VT1")
	orig := datatransfer.TypedVoucher{Type: datatransfer.TypeIdentifier(v0.Voucher.Type), Voucher: nil}
	_ = orig
	// counterparty messages, over the network receiver and over the transport
	var msgs []struct {
		n string
		m datatransfer.Message
	}
	addMsg := func(n string, m datatransfer.Message, err error) {
		if err == nil && m != nil {
			msgs = append(msgs, struct {
				n string
				m datatransfer.Message
			}{n, m})
		}
	}
	if r.Initiator { // counterparty is the responder: responses
		for _, acc := range []bool{true, false} {
			for _, pa := range []bool{true, false} {
				m1, e1 := message.NewResponse(chid.ID, acc, pa, nil)
				addMsg(fmt.Sprintf("NewResponse(acc=%v,paused=%v)", acc, pa), m1, e1)
				m2, e2 := message.RestartResponse(chid.ID, acc, pa, &tv)
				addMsg(fmt.Sprintf("RestartResponse(acc=%v,paused=%v)", acc, pa), m2, e2)
				m3, e3 := message.VoucherResultResponse(chid.ID, acc, pa, &tv)
				addMsg(fmt.Sprintf("VoucherResultResponse(acc=%v,paused=%v)", acc, pa), m3, e3)
				m4, e4 := message.CompleteResponse(chid.ID, acc, pa, nil)
				addMsg(fmt.Sprintf("CompleteResponse(acc=%v,paused=%v)", acc, pa), m4, e4)
			}
		}
		addMsg("UpdateResponse(paused)", message.UpdateResponse(chid.ID, true), nil)
		addMsg("UpdateResponse(resumed)", message.UpdateResponse(chid.ID, false), nil)
		addMsg("CancelResponse", message.CancelResponse(chid.ID), nil)
		addMsg("RestartExistingChannelRequest", message.RestartExistingChannelRequest(chid), nil)
	} else { // counterparty is the initiator: requests
		// the original voucher is needed for a well-formed restart request
		addMsg("UpdateRequest(paused)", message.UpdateRequest(chid.ID, true), nil)
		addMsg("UpdateRequest(resumed)", message.UpdateRequest(chid.ID, false), nil)
		addMsg("CancelRequest", message.CancelRequest(chid.ID), nil)
		m, e := message.VoucherRequest(chid.ID, &tv)
		addMsg("VoucherRequest", m, e)
	}
	for _, mm := range msgs {
		mm := mm
		add("net:"+mm.n, func() { w, _ := doubles.Reencode(mm.m); f().net.Deliver(other, w) })
		add("transport:"+mm.n, func() {
			w, _ := doubles.Reencode(mm.m)
			if w.IsRequest() {
				if rq := w.(datatransfer.Request); !rq.IsRestartExistingChannelRequest() {
					ev().OnRequestReceived(chid, rq)
				}
			} else {
				ev().OnResponseReceived(chid, w.(datatransfer.Response))
			}
		})
	}
	// transport callbacks
	add("OnChannelOpened", func() { ev().OnChannelOpened(chid) })
	add("OnTransferInitiated", func() { ev().OnTransferInitiated(chid) })
	add("OnDataReceived", func() { ev().OnDataReceived(chid, link, 1234, v0.RecvIdx+1, true) })
	add("OnDataQueued", func() { ev().OnDataQueued(chid, link, 1234, v0.QueuedIdx+1, true) })
	add("OnDataSent", func() { ev().OnDataSent(chid, link, 1234, v0.SentIdx+1, true) })
	add("OnChannelCompleted(nil)", func() { ev().OnChannelCompleted(chid, nil) })
	add("OnChannelCompleted(err)", func() { ev().OnChannelCompleted(chid, errors.New("late failure")) })
	add("OnRequestCancelled", func() { ev().OnRequestCancelled(chid, errors.New("cancelled")) })
	add("OnRequestDisconnected", func() { ev().OnRequestDisconnected(chid, errors.New("disconnected")) })
	add("OnSendDataError", func() { ev().OnSendDataError(chid, errors.New("send")) })
	add("OnReceiveDataError", func() { ev().OnReceiveDataError(chid, errors.New("recv")) })
	// API calls
	add("API:Close", func() {
		if err := f().m.CloseDataTransferChannel(bg, chid); err != nil {
			c.Violation("C02", "close-terminal-errors", "CloseDataTransferChannel on a terminated channel returned %v", err)
		}
	})
	add("API:CloseWithError", func() {
		f().m.(closerWithError).CloseDataTransferChannelWithError(bg, chid, errors.New("monitor gave up"))
	})
	add("API:Pause", func() { f().m.PauseDataTransferChannel(bg, chid) })
	add("API:Resume", func() { f().m.ResumeDataTransferChannel(bg, chid) })
	add("API:Restart", func() {
		if err := f().m.RestartDataTransferChannel(bg, chid); err != nil {
			c.Violation("C02", "restart-terminal-errors", "RestartDataTransferChannel on a terminated channel returned %v", err)
		}
	})
	add("API:SendVoucher", func() { f().m.SendVoucher(bg, chid, tv) })
	add("API:SendVoucherResult", func() { f().m.SendVoucherResult(bg, chid, tv) })
	add("API:UpdateValidationStatus(accept)", func() {
		f().m.UpdateValidationStatus(bg, chid, datatransfer.ValidationResult{Accepted: true, DataLimit: 777, VoucherResult: &tv})
	})
	add("API:UpdateValidationStatus(accept-same)", func() {
		f().m.UpdateValidationStatus(bg, chid, datatransfer.ValidationResult{Accepted: true, DataLimit: v0.DataLimit, RequiresFinalization: v0.RequiresFinalization})
	})
	add("API:UpdateValidationStatus(reject)", func() {
		f().m.UpdateValidationStatus(bg, chid, datatransfer.ValidationResult{Accepted: false, VoucherResult: &tv})
	})
	add("API:ChannelState", func() { f().m.ChannelState(bg, chid) })
	add("API:InProgress", func() { f().m.InProgressChannels(bg) })
	return st
}

func TestC02Mgr(t *testing.T) {
	vf.Run(t, "C02Mgr", vf.Opts{Bubble: true, DefaultN: 24}, func(c *vf.Case) {
		r := allRoles[c.Index%4]
		term := terminals[(c.Index/4)%3]
		reopened := (c.Index/12)%2 == 1
		variant := c.Index / 24
		peers := gen.Peers(c.Rng, 3)
		self, other := peers[0], peers[1]
		f := newMgrFix(c, self, nil)
		v := gen.Voucher(c.Rng, "VT0")
		var chid datatransfer.ChannelID
		if r.Initiator {
			var err error
			chid, err = f.open(r.Pull, other, v, dummyCid)
			if err != nil {
				panic(err)
			}
			settle()
		} else {
			chid = f.mkResponder(r.Pull, other, datatransfer.TransferID(1+c.Rng.Intn(1000)), v)
		}
		// in a quarter of the cases the node is stopped the moment the terminal status is announced, while
		// the datastore is slow: the terminal status must be what a later lifetime finds
		stopRace := reopened && (variant%2 == 1 || c.Index%2 == 0)
		var termView *doubles.StateView
		if stopRace {
			var once sync.Once
			var announced, stopping, readByStop atomic.Bool
			f.ds.SetHook(func(op, key string) error {
				if !strings.HasPrefix(key, "/3/") {
					return nil
				}
				switch {
				case op == "get" && stopping.Load():
					readByStop.Store(true) // whatever Stop reads of the record, it reads now
				case op == "put":
					// a slow disk: every write takes a moment (subscribers hear of a transition before its
					// write has landed), and the write that is in flight when the terminal status is announced
					// is carried out, in order, but late - after the stopping node has had every chance to look
					// at the record
					for i := 0; i < 3000 && !announced.Load(); i++ {
						doubles.Yield(1)
					}
					for i := 0; announced.Load() && i < 20000 && !readByStop.Load(); i++ {
						doubles.Yield(1)
					}
				}
				return nil
			})
			m0 := f.m
			f.sub.Inner = func(ev datatransfer.Event, st datatransfer.ChannelState) {
				if st.ChannelID() == chid && st.Status() == term {
					once.Do(func() {
						termView, _ = doubles.ViewOf(st)
						announced.Store(true)
						go func() { stopping.Store(true); m0.Stop(bg) }()
					})
				}
			}
		}
		mgrToTerminal(f, chid, r, term, variant)
		var v0 *doubles.StateView
		if stopRace {
			settle()
			f.ds.SetHook(nil)
			f.sub.Inner = nil
			v0 = termView
			if v0 == nil {
				c.Note("stop race: terminal status %s was never announced", term)
			}
			c.Count("stopped_at_terminal_announcement", 1)
		} else {
			v0 = f.view(chid)
		}
		if v0 == nil || v0.Status != term {
			c.Violation("C02", "route-did-not-terminate", "manager route to %s for %s ended in %v", term, r, v0)
			f.stop()
			return
		}
		if reopened {
			f = f.reopen()
		}
		if stopRace {
			if vr := f.view(chid); vr == nil || vr.Status != term {
				c.Violation("C02", "terminal-status-lost-over-stop "+term.String(), "the channel was announced %s, the node was stopped at once (slow datastore) and the next lifetime finds it %v", term, vr)
				f.stop()
				return
			} else {
				v0 = vr
			}
		}
		cur := func() *mgrFix { return f }
		key := keyFor(f.ds.Log(), chid)
		bytes0 := f.ds.Snapshot()[key]
		nev0 := len(f.sub.For(chid))
		ntp0, nnet0 := f.tp.Len(), f.net.Len()
		stims := stimuliFor(c, cur, chid, r, v0, nil)
		// a well-formed restart request from the initiator must be refused (responder roles)
		if !r.Initiator {
			rr, err := message.NewRequest(chid.ID, true, r.Pull, &v, dummyCid, gen.AllSelector)
			if err == nil {
				stims = append(stims, stim{"transport:RestartRequest", func() {
					w, _ := doubles.Reencode(rr)
					resp, _ := f.tp.Events().OnRequestReceived(chid, w.(datatransfer.Request))
					if resp != nil && resp.Accepted() {
						c.Violation("C02", "restart-request-accepted-on-terminal", "incoming restart request for a %s channel was answered Accepted", term)
					}
				}}, stim{"net:RestartRequest", func() { w, _ := doubles.Reencode(rr); f.net.Deliver(other, w) }},
					stim{"net:DuplicateNewRequest", func() {
						nr, _ := message.NewRequest(chid.ID, false, r.Pull, &v, dummyCid, gen.AllSelector)
						w, _ := doubles.Reencode(nr)
						if r.Pull {
							f.tp.Events().OnRequestReceived(chid, w.(datatransfer.Request))
						} else {
							f.net.Deliver(other, w)
						}
					}})
			}
		}
		// restart requests that only the wire format can express (the library's constructors always
		// fill every field): base CID, selector and/or voucher absent
		if !r.Initiator {
			vplain, _ := cborx.Decode(mustHex(doubles.CBOR(v.Voucher)))
			splain, _ := cborx.Decode(mustHex(doubles.CBOR(gen.AllSelector)))
			for i, sp := range []struct {
				n                 string
				bcid, stor, vouch any
				vtyp              string
			}{
				{"no-cid", nil, splain, vplain, string(v.Type)},
				{"no-cid-no-selector", nil, nil, vplain, string(v.Type)},
				{"bare", nil, nil, nil, ""},
				{"no-voucher", dummyCid, splain, nil, ""},
			} {
				wire := cborx.Encode(reqMap(uint64(types.RestartMessage), uint64(chid.ID), false, r.Pull, sp.bcid, sp.stor, sp.vouch, sp.vtyp, nil))
				name := "SparseRestartRequest(" + sp.n + ")"
				overNet := (i+c.Index)%2 == 0
				stims = append(stims, stim{name, func() {
					m, err := message.FromNet(bytes.NewReader(wire))
					if err != nil {
						c.Count("sparse_restart_undecodable", 1)
						return
					}
					c.Count("sparse_restart_delivered", 1)
					if overNet {
						f.net.Deliver(other, m)
						return
					}
					resp, _ := f.tp.Events().OnRequestReceived(chid, m.(datatransfer.Request))
					if resp != nil && resp.Accepted() {
						c.Violation("C02", "restart-request-accepted-on-terminal "+sp.n, "incoming %s restart request for a %s channel was answered Accepted", sp.n, term)
					}
				}})
			}
		}
		c.Rng.Shuffle(len(stims), func(i, j int) { stims[i], stims[j] = stims[j], stims[i] })
		for _, s := range stims {
			p, val, stack := vf.Recover(s.do)
			if p {
				c.Violation("C02", "panic-on-terminal "+s.name+" "+vf.TopLibFrame(stack), "%s on a %s channel panicked: %v", s.name, term, val)
			}
			settle()
			c.Count("stimuli", 1)
			vNow := f.view(chid)
			if vNow == nil {
				c.Violation("C02", "channel-vanished "+s.name, "channel gone after %s", s.name)
				continue
			}
			if d := doubles.Diff(v0, vNow, true); len(d) > 0 {
				c.Violation("C02", fmt.Sprintf("terminal-state-changed %s by %s: %v", term, s.name, d), "%s channel (%s, reopened=%v) changed %v after %s", term, r, reopened, d, s.name)
				v0 = vNow
			}
			if b := f.ds.Snapshot()[key]; !bytes.Equal(b, bytes0) {
				c.Violation("C02", fmt.Sprintf("terminal-record-rewritten %s by %s", term, s.name), "stored record of a %s channel changed after %s", term, s.name)
				bytes0 = b
			}
			if n := len(f.sub.For(chid)); n != nev0 {
				c.Violation("C02", fmt.Sprintf("event-after-terminal %s by %s", term, s.name), "event %s emitted for a %s channel after %s", f.sub.For(chid)[nev0].Code, term, s.name)
				nev0 = n
			}
			for _, tc := range f.tp.CallsFrom(ntp0) {
				if tc.Chid == chid && tc.Op == "open" { // (pause/resume/close calls on the already cleaned-up transport channel are not ruled out by the property)
					c.Violation("C02", fmt.Sprintf("transport-%s-after-terminal by %s", tc.Op, s.name), "transport %s for a %s channel after %s", tc.Op, term, s.name)
				}
			}
			ntp0 = f.tp.Len()
			for _, nc := range f.net.Sends(nnet0) {
				if nc.Msg.TransferID() != chid.ID && !isRestartExisting(nc.Msg) {
					continue
				}
				if rq, ok := nc.Msg.(datatransfer.Request); ok && (rq.IsRestart() || rq.IsRestartExistingChannelRequest() || rq.IsNew()) {
					c.Violation("C02", "restart-traffic-after-terminal by "+s.name, "request (restart=%v new=%v) sent for a %s channel after %s", rq.IsRestart(), rq.IsNew(), term, s.name)
				}
				if rs, ok := nc.Msg.(datatransfer.Response); ok && (rs.IsNew() || rs.IsRestart()) && rs.Accepted() {
					c.Violation("C02", "accepted-reply-after-terminal by "+s.name, "accepted %v reply sent for a %s channel after %s", kinds(rs), term, s.name)
				}
			}
			nnet0 = f.net.Len()
		}
		f.checkProbes()
		c.Mark("role=%s term=%s reopened=%v variant=%d", r, term, reopened, variant%2)
		c.NonTrivial()
		if c.Index < 2 {
			var names []string
			for _, s := range stims {
				names = append(names, s.name)
			}
			c.Sample(map[string]any{"level": "manager", "role": r.String(), "terminal": term.String(), "reopened": reopened, "stimuli": names})
		}
		f.stop()
	})
}

func isRestartExisting(m datatransfer.Message) bool {
	rq, ok := m.(datatransfer.Request)
	return ok && rq.IsRestartExistingChannelRequest()
}
