package chk

import (
	"bytes"
	"context"
	"errors"
	"fmt"
	"io"
	"reflect"
	"sync"
	"testing"
	"testing/synctest"
	"time"

	"github.com/libp2p/go-libp2p/core/host"
	lnet "github.com/libp2p/go-libp2p/core/network"
	"github.com/libp2p/go-libp2p/core/peer"
	"github.com/libp2p/go-libp2p/core/protocol"
	mocknet "github.com/libp2p/go-libp2p/p2p/net/mock"

	datatransfer "github.com/filecoin-project/go-data-transfer/v2"
	"github.com/filecoin-project/go-data-transfer/v2/message/types"
	"github.com/filecoin-project/go-data-transfer/v2/network"

	"verif/harness/internal/cborx"
	"verif/harness/internal/vf"
)

// ---- C15: network sends retry boundedly, deliver once; inbound dispatch faithful -------------

type nsCall struct {
	at   time.Duration
	fail bool
}

// flakyHost wraps a mocknet host: fails chosen NewStream calls, can hand out flaky streams.
type flakyHost struct {
	host.Host
	mu       sync.Mutex
	t0       time.Time
	pattern  []bool // true = this NewStream call fails
	calls    []nsCall
	stallNth int // this call (0-based) stalls until its context ends (-1 = none)
	writeErr int // >=0: streams fail Write after this many bytes
	streams  []*flakyStream
}

func (f *flakyHost) NewStream(ctx context.Context, p peer.ID, pids ...protocol.ID) (lnet.Stream, error) {
	f.mu.Lock()
	i := len(f.calls)
	fail := i < len(f.pattern) && f.pattern[i]
	f.calls = append(f.calls, nsCall{time.Since(f.t0), fail})
	stall := i == f.stallNth
	we := f.writeErr
	f.mu.Unlock()
	if stall {
		<-ctx.Done()
		return nil, ctx.Err()
	}
	if fail {
		return nil, errors.New("injected stream open failure")
	}
	s, err := f.Host.NewStream(ctx, p, pids...)
	if err != nil {
		return nil, err
	}
	fs := &flakyStream{Stream: s, failAfter: we}
	f.mu.Lock()
	f.streams = append(f.streams, fs)
	f.mu.Unlock()
	return fs, nil
}

type flakyStream struct {
	lnet.Stream
	mu        sync.Mutex
	failAfter int // -1 never
	written   int
	resets    int
	closes    int
}

func (s *flakyStream) Write(p []byte) (int, error) {
	s.mu.Lock()
	fa, w := s.failAfter, s.written
	s.mu.Unlock()
	if fa >= 0 && w+len(p) > fa {
		n := fa - w
		if n < 0 {
			n = 0
		}
		if n > 0 {
			s.Stream.Write(p[:n])
		}
		s.mu.Lock()
		s.written += n
		s.mu.Unlock()
		return n, errors.New("injected write failure")
	}
	n, err := s.Stream.Write(p)
	s.mu.Lock()
	s.written += n
	s.mu.Unlock()
	return n, err
}
func (s *flakyStream) Reset() error {
	s.mu.Lock()
	s.resets++
	s.mu.Unlock()
	return s.Stream.Reset()
}
func (s *flakyStream) Close() error {
	s.mu.Lock()
	s.closes++
	s.mu.Unlock()
	return s.Stream.Close()
}

// recReceiver records inbound dispatch.
type rcvCall struct {
	handler string // request response restart error
	from    peer.ID
	view    msgView
	err     string
}
type recReceiver struct {
	mu    sync.Mutex
	calls []rcvCall
}

func (r *recReceiver) add(c rcvCall) { r.mu.Lock(); r.calls = append(r.calls, c); r.mu.Unlock() }
func (r *recReceiver) ReceiveRequest(ctx context.Context, s peer.ID, m datatransfer.Request) {
	if m == nil || reflect.ValueOf(m).Kind() == reflect.Ptr && reflect.ValueOf(m).IsNil() {
		r.add(rcvCall{handler: "request-without-body", from: s})
		return
	}
	r.add(rcvCall{handler: "request", from: s, view: viewMsg(m)})
}
func (r *recReceiver) ReceiveResponse(ctx context.Context, s peer.ID, m datatransfer.Response) {
	if m == nil || reflect.ValueOf(m).Kind() == reflect.Ptr && reflect.ValueOf(m).IsNil() {
		r.add(rcvCall{handler: "response-without-body", from: s})
		return
	}
	r.add(rcvCall{handler: "response", from: s, view: viewMsg(m)})
}
func (r *recReceiver) ReceiveRestartExistingChannelRequest(ctx context.Context, s peer.ID, m datatransfer.Request) {
	r.add(rcvCall{handler: "restart", from: s, view: viewMsg(m)})
}
func (r *recReceiver) ReceiveError(err error) { r.add(rcvCall{handler: "error", err: err.Error()}) }
func (r *recReceiver) reset()                 { r.mu.Lock(); r.calls = nil; r.mu.Unlock() }
func (r *recReceiver) snapshot() []rcvCall {
	r.mu.Lock()
	defer r.mu.Unlock()
	return append([]rcvCall(nil), r.calls...)
}

func wantHandler(v msgView) string {
	if !v.IsRequest {
		return "response"
	}
	if v.RestartExisting {
		return "restart"
	}
	return "request"
}

func TestC15Send(t *testing.T) {
	vf.Run(t, "C15Send", vf.Opts{Bubble: true, DefaultN: 40}, func(c *vf.Case) {
		r := c.Rng
		mn := mocknet.New()
		h1, err := mn.GenPeer()
		if err != nil {
			panic(err)
		}
		h2, _ := mn.GenPeer()
		h3, _ := mn.GenPeer()
		mn.LinkAll()
		// enumerated part: failure pattern over up to 8 attempts, attempts 1..6 (index-driven), PRNG for the rest
		plen := c.Index % 9
		pattern := make([]bool, plen)
		bits := c.Index / 9
		for i := range pattern {
			pattern[i] = bits>>uint(i)&1 == 1
		}
		if r.Intn(3) == 0 { // long failing prefixes are rare in the enumeration order: add them explicitly
			for i := range pattern {
				pattern[i] = i < len(pattern)-1
			}
		}
		attempts := float64(1 + r.Intn(6))
		if r.Intn(10) == 0 {
			attempts = gen0(r) // 0 or negative: the repository's tests use it as "no retry"
		}
		mode := r.Intn(12) // 0-5 plain, 6-7 cancel, 8 write failure, 9 stalled open + cancel, 10-11 short stream-open timeout (shorter than back-off pauses; a stalled open ends at it)
		fh := &flakyHost{Host: h1, t0: time.Now(), pattern: pattern, stallNth: -1, writeErr: -1}
		var cancelAt time.Duration = -1
		openTO := time.Hour
		switch {
		case mode == 6 || mode == 7:
			cancelAt = time.Duration(r.Intn(20000)) * time.Millisecond
		case mode == 8:
			fh.writeErr = r.Intn(40)
		case mode == 9:
			fh.stallNth = r.Intn(3)
			cancelAt = time.Duration(500+r.Intn(5000)) * time.Millisecond
		case mode >= 10:
			openTO = time.Duration(50+r.Intn(2000)) * time.Millisecond
			if r.Intn(2) == 0 {
				fh.stallNth = r.Intn(3) // this attempt hangs until the open timeout: a failed attempt like any other
			}
			c.Count("short_open_timeout_cases", 1)
		}
		minB := time.Duration(100+r.Intn(1500)) * time.Millisecond
		n1 := network.NewFromLibp2pHost(fh, network.RetryParameters(minB, 20*time.Second, attempts, 1+float64(r.Intn(4))),
			network.SendMessageParameters(openTO, 10*time.Second))
		n2 := network.NewFromLibp2pHost(h2)
		n3 := network.NewFromLibp2pHost(h3)
		r2, r3 := &recReceiver{}, &recReceiver{}
		n2.SetDelegate(r2)
		n3.SetDelegate(r3)
		b := buildMsg(r, r.Intn(12))
		sent := viewMsg(b.m)
		ctx, cancel := context.WithCancel(context.Background())
		var cancelledAt time.Duration = -1
		if cancelAt >= 0 {
			go func() {
				time.Sleep(cancelAt)
				fh.mu.Lock()
				cancelledAt = time.Since(fh.t0)
				fh.mu.Unlock()
				cancel()
			}()
		}
		type result struct {
			err error
			at  time.Duration
		}
		done := make(chan result, 1)
		go func() {
			err := n1.SendMessage(ctx, h2.ID(), b.m)
			done <- result{err, time.Since(fh.t0)}
		}()
		time.Sleep(30 * time.Minute)
		synctest.Wait()
		var res result
		returned := false
		select {
		case res = <-done:
			returned = true
		default:
		}
		fh.mu.Lock()
		calls := append([]nsCall(nil), fh.calls...)
		streams := append([]*flakyStream(nil), fh.streams...)
		cAt := cancelledAt
		fh.mu.Unlock()
		eff := int(attempts)
		if attempts < 1 {
			eff = 1
		}
		if !returned {
			c.Violation("C15", "send-never-returned", "SendMessage still running after 30 virtual minutes (attempts=%v pattern=%v cancelAt=%v)", attempts, pattern, cancelAt)
		} else {
			// bounded attempts
			if len(calls) > eff {
				c.Violation("C15", "too-many-stream-open-attempts", "%d NewStream calls with %v configured attempts (pattern %v)", len(calls), attempts, pattern)
			}
			// which attempt would have succeeded
			okIdx := -1
			for i := 0; i < eff; i++ {
				if !(i < len(pattern) && pattern[i]) && i != fh.stallNth {
					okIdx = i
					break
				}
			}
			cancelledEarly := cAt >= 0 && (okIdx < 0 || len(calls) <= okIdx || res.err != nil && errors.Is(res.err, context.Canceled))
			switch {
			case fh.writeErr >= 0 && okIdx >= 0 && !cancelledEarly:
				// the stream opened, the write failed: reported and reset
				if res.err == nil {
					c.Violation("C15", "write-failure-not-reported", "the stream's Write failed after %d bytes but SendMessage returned nil", fh.writeErr)
				}
				if len(streams) == 1 && streams[0].resets == 0 {
					c.Violation("C15", "write-failure-not-reset", "the stream's Write failed but the stream was not reset (closes=%d)", streams[0].closes)
				}
				c.Count("write_failures", 1)
			case cancelledEarly:
				if res.err == nil && okIdx >= 0 && len(calls) > okIdx {
					// the successful attempt won the race against the cancel: fine
				} else {
					if res.err == nil {
						c.Violation("C15", "cancelled-send-reports-success", "context cancelled at %v before any attempt succeeded, SendMessage returned nil", cAt)
					}
					if res.at > cAt+time.Millisecond {
						c.Violation("C15", "cancel-not-prompt", "context cancelled at %v, SendMessage returned only at %v", cAt, res.at)
					}
					for _, cl := range calls {
						if cl.at > cAt {
							c.Violation("C15", "attempt-after-cancel", "NewStream called at %v after the context was cancelled at %v", cl.at, cAt)
						}
					}
					c.Count("cancelled_sends", 1)
				}
			case okIdx >= 0:
				if res.err != nil {
					c.Violation("C15", "send-failed-though-attempt-succeeded", "attempt #%d of %v opens a stream, yet SendMessage returned %v (pattern %v)", okIdx+1, attempts, res.err, pattern)
				}
				if len(calls) != okIdx+1 {
					c.Violation("C15", "attempt-count", "expected %d NewStream calls (first success), saw %d", okIdx+1, len(calls))
				}
				c.Count("successful_sends", 1)
			default:
				if res.err == nil {
					c.Violation("C15", "send-succeeded-without-stream", "all %d attempts fail to open a stream, yet SendMessage returned nil", eff)
				}
				if len(calls) != eff {
					c.Violation("C15", "attempt-count", "all attempts fail: expected exactly %d NewStream calls, saw %d", eff, len(calls))
				}
				c.Count("exhausted_sends", 1)
			}
			// delivery: exactly once to the intended peer iff reported success
			got2, got3 := r2.snapshot(), r3.snapshot()
			if len(got3) != 0 {
				c.Violation("C15", "delivered-to-wrong-peer", "a bystander peer received %d messages", len(got3))
			}
			msgs := 0
			for _, g := range got2 {
				if g.handler != "error" {
					msgs++
					if g.view != sent {
						c.Violation("C15", "delivered-message-differs", "received message differs from the sent one:\n sent %+v\n got  %+v", sent, g.view)
					}
					if g.from != h1.ID() {
						c.Violation("C15", "wrong-sender", "handler got peer %s, stream came from %s", g.from, h1.ID())
					}
					if g.handler != wantHandler(sent) {
						c.Violation("C15", "wrong-handler", "%s message dispatched to the %s handler", wantHandler(sent), g.handler)
					}
				}
			}
			if res.err == nil && msgs != 1 {
				c.Violation("C15", fmt.Sprintf("delivered-%d-times", msgs), "SendMessage reported success but the peer's handler was called %d times", msgs)
			}
			if res.err != nil && msgs > 0 && fh.writeErr < 0 {
				c.Violation("C15", "delivered-despite-error", "SendMessage failed (%v) but the peer's handler was called %d times", res.err, msgs)
			}
		}
		// a second send through the same network object: its attempts are its own - whatever the first send
		// went through (cancelled in a back-off pause, exhausted, failed on write), the second one makes at most
		// the configured attempts and succeeds exactly when one of them opens a stream
		if returned {
			k := r.Intn(eff + 2) // leading failures; k >= eff exhausts the attempts
			p2 := make([]bool, k)
			for i := range p2 {
				p2[i] = true
			}
			fh.mu.Lock()
			fh.calls, fh.pattern, fh.stallNth, fh.writeErr, fh.streams = nil, p2, -1, -1, nil
			fh.mu.Unlock()
			r2.reset()
			b2 := buildMsg(r, r.Intn(12))
			done2 := make(chan error, 1)
			go func() { done2 <- n1.SendMessage(context.Background(), h2.ID(), b2.m) }()
			time.Sleep(30 * time.Minute)
			synctest.Wait()
			select {
			case err2 := <-done2:
				fh.mu.Lock()
				n2calls := len(fh.calls)
				fh.mu.Unlock()
				if k < eff {
					if err2 != nil {
						c.Violation("C15", "second-send-failed-though-attempt-succeeded", "second send on the same network: attempt #%d of %v opens a stream, yet SendMessage returned %v after %d attempts (first send: mode %d, %d attempts, err %v)", k+1, attempts, err2, n2calls, mode, len(calls), res.err)
					}
					if n2calls != k+1 {
						c.Violation("C15", "second-send-attempt-count", "second send on the same network: expected %d NewStream calls (first success), saw %d (first send: mode %d, err %v)", k+1, n2calls, mode, res.err)
					}
				} else {
					if err2 == nil {
						c.Violation("C15", "second-send-succeeded-without-stream", "second send: all %d attempts fail, yet SendMessage returned nil", eff)
					}
					if n2calls != eff {
						c.Violation("C15", "second-send-attempt-count", "second send on the same network: all attempts fail, expected exactly %d NewStream calls, saw %d (first send: mode %d, err %v)", eff, n2calls, mode, res.err)
					}
				}
				// ... and what it delivers is its own message, once, nothing else (nothing left over from the
				// first send, which may have failed half-way through its write)
				sent2 := viewMsg(b2.m)
				nmsg, nerr2 := 0, 0
				for _, g := range r2.snapshot() {
					if g.handler == "error" {
						nerr2++
						continue
					}
					nmsg++
					if g.view != sent2 {
						c.Violation("C15", "second-send-delivered-foreign-message", "the peer received a message that the second send did not carry (first send: mode %d, err %v):\n sent %+v\n got  %+v", mode, res.err, sent2, g.view)
					}
				}
				if err2 == nil && nmsg != 1 {
					c.Violation("C15", fmt.Sprintf("second-send-delivered-%d-times", nmsg), "second send reported success, the peer's handlers were called %d times (first send: mode %d, err %v)", nmsg, mode, res.err)
				}
				if err2 == nil && nerr2 != 0 {
					c.Violation("C15", "second-send-stream-malformed", "second send reported success, yet the peer found its stream malformed (%d errors; first send: mode %d, err %v)", nerr2, mode, res.err)
				}
				if n3 := len(r3.snapshot()); n3 != 0 {
					c.Violation("C15", "delivered-to-wrong-peer", "a bystander peer received %d messages", n3)
				}
				c.Count("second_sends", 1)
			default:
				c.Violation("C15", "second-send-never-returned", "second SendMessage on the same network still running after 30 virtual minutes")
			}
		}
		c.Mark("plen=%d att=%v mode=%d calls=%d err=%v", plen, attempts, mode, len(calls), res.err != nil)
		c.Count("newstream_calls", len(calls))
		c.NonTrivial()
		if c.Index < 3 {
			var ats []string
			for _, cl := range calls {
				ats = append(ats, fmt.Sprintf("%v fail=%v", cl.at, cl.fail))
			}
			c.Sample(map[string]any{"attempts": attempts, "pattern": fmt.Sprint(pattern), "mode": mode, "cancel_at": cancelAt.String(), "newstream_calls": ats, "error": fmt.Sprint(res.err), "message": b.ctor})
		}
		cancel()
		h1.Close()
		h2.Close()
		h3.Close()
		mn.Close()
		time.Sleep(time.Minute)
	})
}

func gen0(r interface{ Intn(int) int }) float64 { return float64(-r.Intn(2)) }

func TestC15Inbound(t *testing.T) {
	vf.Run(t, "C15Inbound", vf.Opts{Bubble: true, DefaultN: 40}, func(c *vf.Case) {
		r := c.Rng
		mn := mocknet.New()
		h1, _ := mn.GenPeer()
		h2, _ := mn.GenPeer()
		mn.LinkAll()
		n2 := network.NewFromLibp2pHost(h2)
		rc := &recReceiver{}
		n2.SetDelegate(rc)
		k := r.Intn(5)
		var stream bytes.Buffer
		var want []msgView
		for i := 0; i < k; i++ {
			b := buildMsg(r, r.Intn(12))
			if r.Intn(16) == 0 { // a large (multi-megabyte) voucher: still one well-formed message
				big := make([]byte, 1<<20+r.Intn(1<<20))
				r.Read(big)
				m := cborx.M{"IsRq": true, "Response": nil, "Request": cborx.M{"BCid": nil, "Type": uint64(4), "Paus": false, "Part": false, "Pull": false, "Stor": nil,
					"Vouch": big, "VTyp": "big", "XferID": uint64(7), "RestartChannel": cborx.L{"", "", uint64(0)}}}
				enc := cborx.Encode(m)
				stream.Write(enc)
				want = append(want, msgView{IsRequest: true, TransferID: 7, Voucher: true, VType: "big"})
				c.Count("large_messages", 1)
				continue
			}
			var bb bytes.Buffer
			b.m.ToNet(&bb)
			stream.Write(bb.Bytes())
			want = append(want, viewMsg(b.m))
		}
		tail := r.Intn(6) // 0 clean EOF, 1 garbage, 2 structurally mutated message, 3 truncated message, 4 well-formed envelope without a body, 5 envelope whose flag names the body that is absent
		switch tail {
		case 4:
			stream.Write(cborx.Encode(cborx.M{"IsRq": r.Intn(2) == 0, "Request": nil, "Response": nil}))
		case 5:
			if r.Intn(2) == 0 {
				stream.Write(cborx.Encode(cborx.M{"IsRq": true, "Request": nil, "Response": respMap(uint64(types.NewMessage), 7, true, false, nil, "")["Response"]}))
			} else {
				stream.Write(cborx.Encode(cborx.M{"IsRq": false, "Response": nil, "Request": reqMap(uint64(types.CancelMessage), 7, false, false, nil, nil, nil, "", nil)["Request"]}))
			}
		case 1:
			g := make([]byte, 1+r.Intn(30))
			r.Read(g)
			g[0] = 0xff // not a valid start of a map
			stream.Write(g)
		case 2:
			stream.Write(cborx.Encode(cborx.L{"not", "a", "message"}))
		case 3:
			var bb bytes.Buffer
			buildMsg(r, 0).m.ToNet(&bb)
			stream.Write(bb.Bytes()[:1+r.Intn(bb.Len()-1)])
		}
		s, err := h1.NewStream(context.Background(), h2.ID(), datatransfer.ProtocolDataTransfer1_2)
		if err != nil {
			panic(err)
		}
		if _, err := s.Write(stream.Bytes()); err != nil {
			c.Note("write: %v", err)
		}
		s.CloseWrite()
		// what does our side of the stream see afterwards (reset or clean close)?
		readErr := make(chan error, 1)
		go func() {
			_, err := io.ReadAll(s)
			readErr <- err
		}()
		time.Sleep(5 * time.Minute)
		synctest.Wait()
		got := rc.snapshot()
		var msgs []rcvCall
		nerr := 0
		for _, g := range got {
			if g.handler == "error" {
				nerr++
			} else {
				msgs = append(msgs, g)
			}
		}
		if len(msgs) != len(want) {
			c.Violation("C15", fmt.Sprintf("inbound-handler-calls %d want %d tail=%d", len(msgs), len(want), tail), "stream carried %d well-formed messages (tail kind %d), handlers were called %d times", len(want), tail, len(msgs))
		}
		for i := 0; i < len(msgs) && i < len(want); i++ {
			w := want[i]
			g := msgs[i]
			if w.VType == "big" {
				if g.handler != "request" || g.view.TransferID != 7 || g.view.VType != "big" {
					c.Violation("C15", "inbound-large-message-garbled", "large message arrived as %+v", g.view)
				}
				continue
			}
			if g.view != w {
				c.Violation("C15", "inbound-message-differs", "message %d differs:\n sent %+v\n got  %+v", i, w, g.view)
			}
			if g.handler != wantHandler(w) {
				c.Violation("C15", "inbound-wrong-handler", "%s message dispatched to the %s handler", wantHandler(w), g.handler)
			}
			if g.from != h1.ID() {
				c.Violation("C15", "inbound-wrong-peer", "handler got peer %s, the connection's remote peer is %s", g.from, h1.ID())
			}
		}
		var rerr error
		select {
		case rerr = <-readErr:
		default:
			rerr = errors.New("stream still open")
		}
		if tail == 1 || tail == 2 || tail == 4 || tail == 5 {
			if nerr == 0 {
				c.Violation("C15", "malformed-stream-not-reported", "malformed tail (kind %d) produced no ReceiveError", tail)
			}
			if rerr == nil {
				c.Violation("C15", "malformed-stream-not-reset", "malformed tail (kind %d): the stream was closed cleanly instead of reset", tail)
			}
			c.Count("malformed_streams", 1)
		}
		if tail == 0 && nerr != 0 {
			c.Violation("C15", "clean-stream-reported-error", "well-formed stream produced %d ReceiveError calls: %v", nerr, got)
		}
		c.Mark("k=%d tail=%d nerr=%d reset=%v", k, tail, nerr, rerr != nil)
		c.Count("inbound_messages", len(want))
		c.NonTrivial()
		if c.Index < 2 {
			c.Sample(map[string]any{"wellformed_messages": k, "tail_kind": tail, "stream_bytes": stream.Len(), "handler_calls": len(msgs), "receive_errors": nerr, "sender_read_error": fmt.Sprint(rerr)})
		}
		s.Reset()
		h1.Close()
		h2.Close()
		mn.Close()
		time.Sleep(time.Minute)
	})
}

// TestC15Reuse: sends follow one another closely on one network object, some of them failing in the
// middle of their write (the stream dies after k bytes). A failed send is reported and leaves nothing
// behind: the next message - to another peer - arrives alone, once, intact, and the peer of the failed
// send never sees a well-formed message it was not successfully sent.
func TestC15Reuse(t *testing.T) {
	vf.Run(t, "C15Reuse", vf.Opts{Bubble: true, DefaultN: 8}, func(c *vf.Case) {
		r := c.Rng
		mn := mocknet.New()
		h1, err := mn.GenPeer()
		if err != nil {
			panic(err)
		}
		h2, _ := mn.GenPeer()
		h3, _ := mn.GenPeer()
		mn.LinkAll()
		fh := &flakyHost{Host: h1, t0: time.Now(), stallNth: -1, writeErr: -1}
		n1 := network.NewFromLibp2pHost(fh, network.RetryParameters(100*time.Millisecond, time.Second, 2, 1), network.SendMessageParameters(time.Hour, 10*time.Second))
		n2 := network.NewFromLibp2pHost(h2)
		n3 := network.NewFromLibp2pHost(h3)
		r2, r3 := &recReceiver{}, &recReceiver{}
		n2.SetDelegate(r2)
		n3.SetDelegate(r3)
		rounds := 12 + r.Intn(12)
		for i := 0; i < rounds && c.Violations() == 0; i++ {
			a, b := buildMsg(r, r.Intn(12)), buildMsg(r, r.Intn(12))
			failAt := r.Intn(60)
			fh.mu.Lock()
			fh.writeErr = failAt
			fh.mu.Unlock()
			errA := n1.SendMessage(context.Background(), h2.ID(), a.m) // dies after failAt bytes (if the message is longer)
			fh.mu.Lock()
			fh.writeErr = -1
			fh.mu.Unlock()
			errB := n1.SendMessage(context.Background(), h3.ID(), b.m)
			time.Sleep(time.Minute)
			synctest.Wait()
			var abuf bytes.Buffer
			a.m.ToNet(&abuf)
			if abuf.Len() > failAt && errA == nil {
				c.Violation("C15", "write-failure-not-reported", "the stream died after %d of %d bytes, SendMessage returned nil", failAt, abuf.Len())
			}
			if errA != nil {
				c.Count("failed_sends_followed_by_another", 1)
				for _, g := range r2.snapshot() {
					if g.handler != "error" {
						c.Violation("C15", "delivered-despite-error", "the send to this peer failed (%v), yet its %s handler was called", errA, g.handler)
					}
				}
			}
			if errB != nil {
				c.Violation("C15", "send-after-failed-send-errors", "the send that followed a failed one returned %v", errB)
			}
			wantB := viewMsg(b.m)
			nmsg := 0
			for _, g := range r3.snapshot() {
				if g.handler == "error" {
					c.Violation("C15", "send-after-failed-send-garbled", "the peer of the send that followed a failed one found its stream malformed: %s", g.err)
					continue
				}
				nmsg++
				if g.view != wantB {
					c.Violation("C15", "send-after-failed-send-delivered-foreign-message", "the peer received a message the send did not carry (round %d, first send died after %d bytes):\n sent %+v\n got  %+v", i, failAt, wantB, g.view)
				}
			}
			if errB == nil && nmsg != 1 {
				c.Violation("C15", fmt.Sprintf("send-after-failed-send-delivered-%d-times", nmsg), "the send that followed a failed one reported success; the peer's handlers were called %d times", nmsg)
			}
			r2.reset()
			r3.reset()
		}
		c.Mark("rounds=%d", rounds/4)
		c.NonTrivial()
		if c.Index < 1 {
			c.Sample(map[string]any{"engine": "back-to-back sends, every first one dying mid-write", "rounds": rounds})
		}
		h1.Close()
		h2.Close()
		h3.Close()
		mn.Close()
		time.Sleep(time.Minute)
	})
}
