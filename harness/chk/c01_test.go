package chk

import (
	"bytes"
	"context"
	"fmt"
	"math/rand"
	"sync"
	"sync/atomic"
	"testing"
	"testing/synctest"
	"time"

	bstore "github.com/ipfs/boxo/blockstore"
	blocks "github.com/ipfs/go-block-format"
	"github.com/ipfs/go-cid"
	"github.com/ipfs/go-datastore"
	dss "github.com/ipfs/go-datastore/sync"
	gsimpl "github.com/ipfs/go-graphsync/impl"
	gsnet "github.com/ipfs/go-graphsync/network"
	"github.com/ipfs/go-graphsync/storeutil"
	ipld "github.com/ipld/go-ipld-prime"
	_ "github.com/ipld/go-ipld-prime/codec/raw"
	"github.com/ipld/go-ipld-prime/datamodel"
	"github.com/ipld/go-ipld-prime/fluent/qp"
	cidlink "github.com/ipld/go-ipld-prime/linking/cid"
	"github.com/ipld/go-ipld-prime/node/basicnode"
	"github.com/libp2p/go-libp2p/core/host"
	"github.com/libp2p/go-libp2p/core/peer"
	mocknet "github.com/libp2p/go-libp2p/p2p/net/mock"
	"github.com/multiformats/go-multihash"

	datatransfer "github.com/filecoin-project/go-data-transfer/v2"
	"github.com/filecoin-project/go-data-transfer/v2/channelmonitor"
	dtimpl "github.com/filecoin-project/go-data-transfer/v2/impl"
	"github.com/filecoin-project/go-data-transfer/v2/network"
	gst "github.com/filecoin-project/go-data-transfer/v2/transport/graphsync"

	"verif/harness/internal/doubles"
	"verif/harness/internal/gen"
	"verif/harness/internal/vf"
)

// ---- C01: Completed means delivered (two full nodes: mocknet + real graphsync + real stack) ----

var lpCbor = cidlink.LinkPrototype{Prefix: cid.Prefix{Version: 1, Codec: 0x71, MhType: multihash.SHA2_256, MhLength: 32}}
var lpRaw = cidlink.LinkPrototype{Prefix: cid.Prefix{Version: 1, Codec: 0x55, MhType: multihash.SHA2_256, MhLength: 32}}

// dagSpec is what the independent walk of the source store finds.
type dagSpec struct {
	root      datamodel.Link
	blocks    map[string][]byte // cid -> bytes of every block reachable from the root
	positions int               // traversal length (blocks with repetition)
	unique    uint64            // summed size of distinct blocks
}

// buildDAG stores a random DAG (lists of links over raw/dag-cbor leaves, controlled duplication).
func buildDAG(r *rand.Rand, lsys *ipld.LinkSystem) datamodel.Link {
	var pool []datamodel.Link
	leaf := func() datamodel.Link {
		if len(pool) > 0 && r.Intn(10) < 3 {
			return gen.Pick(r, pool) // duplicate link: same block at another traversal position
		}
		size := 1 + r.Intn(2000)
		if r.Intn(6) == 0 {
			size = 8000 + r.Intn(40000)
		}
		b := make([]byte, size)
		r.Read(b)
		var l datamodel.Link
		var err error
		if r.Intn(2) == 0 {
			l, err = lsys.Store(ipld.LinkContext{}, lpRaw, basicnode.NewBytes(b))
		} else {
			l, err = lsys.Store(ipld.LinkContext{}, lpCbor, basicnode.NewBytes(b))
		}
		if err != nil {
			panic(err)
		}
		pool = append(pool, l)
		return l
	}
	var node func(depth int) datamodel.Link
	node = func(depth int) datamodel.Link {
		if depth == 0 {
			return leaf()
		}
		n := 1 + r.Intn(5)
		links := make([]datamodel.Link, n)
		for i := range links {
			if r.Intn(3) == 0 {
				links[i] = leaf()
			} else {
				links[i] = node(depth - 1)
			}
		}
		nd, _ := qp.BuildList(basicnode.Prototype.Any, int64(n), func(la datamodel.ListAssembler) {
			for _, l := range links {
				qp.ListEntry(la, qp.Link(l))
			}
		})
		l, err := lsys.Store(ipld.LinkContext{}, lpCbor, nd)
		if err != nil {
			panic(err)
		}
		if r.Intn(4) == 0 {
			pool = append(pool, l) // whole sub-DAGs may repeat too
		}
		return l
	}
	d := 1 + r.Intn(3)
	if r.Intn(8) == 0 {
		d = 0 // a single block
	}
	return node(d)
}

// walkDAG independently walks the source blockstore from the root (explore-all semantics).
func walkDAG(bs bstore.Blockstore, root datamodel.Link) dagSpec {
	spec := dagSpec{root: root, blocks: map[string][]byte{}}
	var walk func(l datamodel.Link)
	walk = func(l datamodel.Link) {
		c := l.(cidlink.Link).Cid
		blk, err := bs.Get(context.Background(), c)
		if err != nil {
			panic(fmt.Sprintf("walk: %v", err))
		}
		spec.positions++
		if _, ok := spec.blocks[c.String()]; !ok {
			spec.blocks[c.String()] = blk.RawData()
			spec.unique += uint64(len(blk.RawData()))
		}
		if c.Prefix().Codec != 0x71 {
			return
		}
		lsys := storeutil.LinkSystemForBlockstore(bs)
		n, err := lsys.Load(ipld.LinkContext{}, l, basicnode.Prototype.Any)
		if err != nil {
			panic(err)
		}
		if n.Kind() == datamodel.Kind_List {
			it := n.ListIterator()
			for !it.Done() {
				_, v, _ := it.Next()
				if cl, err := v.AsLink(); err == nil {
					walk(cl)
				}
			}
		}
	}
	walk(root)
	return spec
}

type e2eNode struct {
	h    host.Host
	bs   bstore.Blockstore // default store
	own  bstore.Blockstore // per-channel store (when configured)
	dt   datatransfer.Manager
	tr   *gst.Transport
	sub  *doubles.SubLog
	val  *doubles.RecValidator
	name string
	// putDelay (ns) is slept before every block write of this node's stores: a slow disk, so that
	// protocol messages can overtake the accounting of blocks that are already on the wire
	putDelay atomic.Int64
}

// slowBS delays block writes by the owning node's putDelay
type slowBS struct {
	bstore.Blockstore
	d *atomic.Int64
}

func (s slowBS) Put(ctx context.Context, b blocks.Block) error {
	if d := s.d.Load(); d > 0 {
		time.Sleep(time.Duration(d))
	}
	return s.Blockstore.Put(ctx, b)
}

func (s slowBS) PutMany(ctx context.Context, bs []blocks.Block) error {
	if d := s.d.Load(); d > 0 {
		time.Sleep(time.Duration(d))
	}
	return s.Blockstore.PutMany(ctx, bs)
}

func newE2ENode(ctx context.Context, h host.Host, name string, mon *channelmonitor.Config) *e2eNode {
	n := &e2eNode{h: h, name: name, sub: &doubles.SubLog{}, val: doubles.NewRecValidator()}
	n.bs = slowBS{bstore.NewBlockstore(dss.MutexWrap(datastore.NewMapDatastore())), &n.putDelay}
	gs := gsimpl.New(ctx, gsnet.NewFromLibp2pHost(h), storeutil.LinkSystemForBlockstore(n.bs))
	n.tr = gst.NewTransport(h.ID(), gs)
	nw := network.NewFromLibp2pHost(h, network.RetryParameters(time.Second, 2*time.Second, 4, 1))
	var opts []dtimpl.DataTransferOption
	if mon != nil {
		opts = append(opts, dtimpl.ChannelRestartConfig(*mon))
	}
	dt, err := dtimpl.NewDataTransfer(dss.MutexWrap(datastore.NewMapDatastore()), nw, n.tr, opts...)
	if err != nil {
		panic(err)
	}
	n.dt = dt
	for _, t := range regTypes {
		dt.RegisterVoucherType(datatransfer.TypeIdentifier(t), n.val)
	}
	dt.SubscribeToEvents(n.sub.Fn())
	ready := make(chan error, 1)
	dt.OnReady(func(e error) { ready <- e })
	if err := dt.Start(ctx); err != nil {
		panic(err)
	}
	<-ready
	return n
}

func (n *e2eNode) view(c *vf.Case, chid datatransfer.ChannelID) *doubles.StateView {
	st, err := n.dt.ChannelState(context.Background(), chid)
	if err != nil || st == nil {
		return nil
	}
	v, p := doubles.ViewOf(st)
	probeC19(c, "e2e "+n.name, p)
	return v
}

func TestC01E2E(t *testing.T) {
	vf.Run(t, "C01E2E", vf.Opts{Bubble: true, DefaultN: 12, WatchdogSec: 120}, func(c *vf.Case) {
		r := c.Rng
		ctx, cancel := context.WithCancel(context.Background())
		mn := mocknet.New()
		hs, err := mn.GenPeer()
		if err != nil {
			panic(err)
		}
		hr, _ := mn.GenPeer()
		mn.LinkAll()
		pull := c.Index%2 == 0
		scenario := (c.Index / 2) % 6 // 0 plain, 1 data limits, 2 finalization, 3 forced pause, 4 pause/resume, 5 link cut healed by the monitor
		mon := &channelmonitor.Config{AcceptTimeout: time.Minute, RestartDebounce: 500 * time.Millisecond, RestartBackoff: time.Second, MaxConsecutiveRestarts: 6, CompleteTimeout: time.Minute}
		var ms, mr *channelmonitor.Config // sender / receiver monitor (the initiator monitors)
		if scenario == 5 || r.Intn(3) == 0 {
			if pull {
				mr = mon
			} else {
				ms = mon
			}
		}
		S := newE2ENode(ctx, hs, "sender", ms)   // holds the data
		R := newE2ENode(ctx, hr, "receiver", mr) // receives it
		I, P := S, R                             // initiator, responder
		if pull {
			I, P = R, S
		}
		// payload
		lsys := storeutil.LinkSystemForBlockstore(S.bs)
		storeCfg := r.Intn(4) // 0 default stores, 1 per-channel store on the receiver, 2 on the sender, 3 both
		earlyRestart := scenario == 3 && (c.Index/12)%5 != 4
		if earlyRestart && r.Intn(3) != 0 {
			storeCfg |= 1 // the re-applied transport options matter when the receiver has a store of its own
		}
		if storeCfg >= 2 {
			S.own = bstore.NewBlockstore(dss.MutexWrap(datastore.NewMapDatastore()))
			lsys = storeutil.LinkSystemForBlockstore(S.own)
		}
		root := buildDAG(r, &lsys)
		src := S.bs
		if S.own != nil {
			src = S.own
		}
		spec := walkDAG(src, root)
		if storeCfg == 1 || storeCfg == 3 {
			R.own = slowBS{bstore.NewBlockstore(dss.MutexWrap(datastore.NewMapDatastore())), &R.putDelay}
		}
		for _, n := range []*e2eNode{S, R} {
			if n.own != nil {
				ls := storeutil.LinkSystemForBlockstore(n.own)
				for _, t := range regTypes {
					n.dt.RegisterTransportConfigurer(datatransfer.TypeIdentifier(t), func(datatransfer.ChannelID, datatransfer.TypedVoucher) []datatransfer.TransportOption {
						return []datatransfer.TransportOption{gst.UseStore(ls)}
					})
				}
			}
		}
		slowDisk := 0
		if r.Intn(2) == 0 {
			slowDisk = 1 + r.Intn(300)
			R.putDelay.Store(int64(slowDisk) * int64(time.Millisecond))
		}
		// responder application behaviour
		limit := uint64(0)
		raise := uint64(1 + r.Intn(int(spec.unique/3+2)))
		fin := scenario == 2 || (scenario == 1 && r.Intn(3) == 0)
		force := scenario == 3
		if scenario == 1 {
			limit = raise
		}
		P.val.SetOutcome(func(kind string, n int, ch datatransfer.ChannelID) (datatransfer.ValidationResult, error) {
			return datatransfer.ValidationResult{Accepted: true, DataLimit: limit, RequiresFinalization: fin, ForcePause: force && kind != "restart"}, nil
		})
		var appMu sync.Mutex
		curLimit := limit
		raises, released, unforced := 0, false, false
		update := func(ch datatransfer.ChannelID, res datatransfer.ValidationResult, delay time.Duration) {
			go func() {
				time.Sleep(delay)
				if err := P.dt.UpdateValidationStatus(context.Background(), ch, res); err != nil {
					c.Note("UpdateValidationStatus(%+v): %v", res, err)
				}
			}()
		}
		P.sub.Inner = func(ev datatransfer.Event, st datatransfer.ChannelState) {
			ch := st.ChannelID()
			appMu.Lock()
			defer appMu.Unlock()
			switch {
			case ev.Code == datatransfer.DataLimitExceeded:
				prog := st.Queued()
				if !st.IsPull() {
					prog = st.Received()
				}
				curLimit = prog + raise
				raises++
				update(ch, datatransfer.ValidationResult{Accepted: true, DataLimit: curLimit, RequiresFinalization: fin}, time.Duration(1+r.Intn(400))*time.Millisecond)
			case st.Status() == datatransfer.Finalizing && !released:
				released = true
				update(ch, datatransfer.ValidationResult{Accepted: true, DataLimit: curLimit, RequiresFinalization: false}, time.Duration(1+r.Intn(800))*time.Millisecond)
			case force && !unforced && ev.Code == datatransfer.Accept:
				unforced = true
				update(ch, datatransfer.ValidationResult{Accepted: true, DataLimit: curLimit, RequiresFinalization: fin}, time.Duration(200+r.Intn(2000))*time.Millisecond)
			}
		}
		// pause/resume script and link cut, keyed on the receiver's data events
		cutAt, pauseAt := -1, -1
		if scenario == 5 && spec.positions > 2 {
			cutAt = 1 + r.Intn(spec.positions-1)
		}
		if scenario == 4 && spec.positions > 1 {
			pauseAt = 1 + r.Intn(spec.positions)
		}
		pauser := gen.Pick(r, []*e2eNode{I, P})
		var chid datatransfer.ChannelID
		var evMu sync.Mutex
		nrecv := 0
		cuts, pausesDone := 0, 0
		prevInner := R.sub.Inner // the receiver may also be the responder: keep its application behaviour
		R.sub.Inner = func(ev datatransfer.Event, st datatransfer.ChannelState) {
			if prevInner != nil {
				prevInner(ev, st)
			}
			if ev.Code != datatransfer.DataReceived {
				return
			}
			evMu.Lock()
			nrecv++
			k := nrecv
			evMu.Unlock()
			if k == cutAt {
				evMu.Lock()
				cuts++
				evMu.Unlock()
				go func() {
					mn.UnlinkPeers(hs.ID(), hr.ID())
					mn.DisconnectPeers(hs.ID(), hr.ID())
					time.Sleep(time.Duration(2+r.Intn(8)) * time.Second)
					mn.LinkPeers(hs.ID(), hr.ID())
				}()
			}
			if k == pauseAt {
				ch := st.ChannelID()
				evMu.Lock()
				pausesDone++
				evMu.Unlock()
				go func() {
					pauser.dt.PauseDataTransferChannel(context.Background(), ch)
					time.Sleep(time.Duration(100+r.Intn(3000)) * time.Millisecond)
					pauser.dt.ResumeDataTransferChannel(context.Background(), ch)
				}()
			}
		}
		v := gen.Voucher(r, gen.Pick(r, regTypes))
		rootCid := root.(cidlink.Link).Cid
		if pull {
			chid, err = I.dt.OpenPullDataChannel(ctx, P.h.ID(), v, rootCid, gen.AllSelector)
		} else {
			chid, err = I.dt.OpenPushDataChannel(ctx, P.h.ID(), v, rootCid, gen.AllSelector)
		}
		if err != nil {
			c.Note("open failed: %v", err)
		}
		if earlyRestart {
			// the initiator restarts the channel while the responder still holds it paused, i.e. before
			// the first block has moved (transport options such as the per-channel store are applied again)
			go func() {
				time.Sleep(50 * time.Millisecond)
				if err := I.dt.RestartDataTransferChannel(ctx, chid); err != nil {
					c.Note("early restart: %v", err)
				}
			}()
			c.Count("restarts_before_first_block", 1)
		}
		// let everything run: longer than every configured timer
		time.Sleep(20 * time.Minute)
		synctest.Wait()
		vi, vp := I.view(c, chid), P.view(c, chid)
		vs, vr := S.view(c, chid), R.view(c, chid)
		accepted := false
		for _, e := range P.sub.For(chid) {
			if e.Code == datatransfer.Accept {
				accepted = true
			}
		}
		status := func(v *doubles.StateView) string {
			if v == nil {
				return "none"
			}
			return v.Status.String()
		}
		if vi != nil && vi.Status == datatransfer.Completed && accepted {
			c.NonTrivial()
			c.Count("initiator_completed", 1)
			if vp == nil || vp.Status != datatransfer.Completed {
				c.Violation("C01", "responder-not-completed "+status(vp), "initiator Completed but the responder is %s (scenario %d, pull=%v)", status(vp), scenario, pull)
			}
			sentComplete := false
			for _, e := range P.sub.For(chid) {
				if e.Code == datatransfer.Complete || (e.Code == datatransfer.ResumeResponder && e.View.Status == datatransfer.Completing) {
					sentComplete = true
				}
			}
			if !sentComplete {
				c.Violation("C01", "responder-never-completed-locally", "initiator Completed but the responder never applied its own completion")
			}
			// the receiver holds every selected block, byte-identical
			dst := R.bs
			if R.own != nil {
				dst = R.own
			}
			missing, differ := 0, 0
			for cs, want := range spec.blocks {
				cc, _ := cid.Decode(cs)
				blk, err := dst.Get(context.Background(), cc)
				if err != nil {
					missing++
				} else if !bytes.Equal(blk.RawData(), want) {
					differ++
				}
			}
			if missing+differ > 0 {
				c.Violation("C01", "receiver-missing-blocks", "initiator Completed but the receiver's store lacks %d and differs in %d of %d selected blocks (scenario %d, store config %d)", missing, differ, len(spec.blocks), scenario, storeCfg)
			}
			if vr != nil && vs != nil && (vr.Received != vs.Queued || vr.Received != spec.unique) {
				c.Violation("C01", fmt.Sprintf("totals-disagree restart=%v", cuts > 0), "receiver Received=%d, sender Queued=%d, unique payload size=%d (positions %d, scenario %d, cuts %d)", vr.Received, vs.Queued, spec.unique, spec.positions, scenario, cuts)
			}
			if cuts > 0 {
				c.Count("completed_through_restart", 1)
			}
		} else {
			c.Count("not_completed."+status(vi), 1)
			c.Note("initiator %s responder %s accepted=%v scenario=%d msg=%q/%q", status(vi), status(vp), accepted, scenario, msgOf(vi), msgOf(vp))
			tr := func(n *e2eNode) string {
				s := ""
				evs := n.sub.For(chid)
				for i, e := range evs {
					if i > len(evs)-25 {
						s += fmt.Sprintf("%s>%s ", e.Code, e.View.Status)
					}
				}
				return s
			}
			c.Note("initiator tail: %s", tr(I))
			c.Note("responder tail: %s", tr(P))
		}
		appMu.Lock()
		c.Count("limit_raises", raises)
		if released {
			c.Count("finalization_rounds", 1)
		}
		appMu.Unlock()
		c.Count("link_cuts", cuts)
		c.Count("pause_resume", pausesDone)
		if slowDisk > 0 {
			c.Count("slow_receiver_disk", 1)
		}
		c.Count("blocks", spec.positions)
		c.Mark("pull=%v sc=%d store=%d slow=%v ist=%s pst=%s cuts=%d pos=%d", pull, scenario, storeCfg, slowDisk > 0, status(vi), status(vp), cuts, min(spec.positions, 8))
		if c.Index < 3 {
			c.Sample(map[string]any{"pull": pull, "scenario": scenario, "store_config": storeCfg, "dag_positions": spec.positions, "distinct_blocks": len(spec.blocks), "unique_bytes": spec.unique,
				"initiator": fmt.Sprint(vi), "responder": fmt.Sprint(vp), "limit_raises": raises, "link_cuts": cuts})
		}
		// shut everything down so that no goroutine outlives the bubble
		for _, n := range []*e2eNode{I, P} {
			if vv := n.view(c, chid); vv != nil && !isTerminal(vv.Status) {
				n.dt.CloseDataTransferChannel(context.Background(), chid)
			}
		}
		time.Sleep(2 * time.Minute)
		S.dt.Stop(context.Background())
		R.dt.Stop(context.Background())
		cancel()
		hs.Close()
		hr.Close()
		mn.Close()
		time.Sleep(5 * time.Minute)
	})
}

func msgOf(v *doubles.StateView) string {
	if v == nil {
		return ""
	}
	return v.Message
}

// TestC01Late: two real managers wired back to back (manager level, no graphsync). The transfer is
// accepted WITHOUT a finalization requirement and runs to its end; the responder's application
// changes its mind late - it calls UpdateValidationStatus{RequiresFinalization: true} before, WHILE
// (from another goroutine, while the message is on its way) or after the responder sends its
// completion - and never releases it. Whatever wins that race, the two ends must tell one story: an
// initiator that ends Completed has a responder that ends Completed.
func TestC01Late(t *testing.T) {
	vf.Run(t, "C01Late", vf.Opts{Bubble: true, DefaultN: 24}, func(c *vf.Case) {
		r := c.Rng
		pull := c.Index%2 == 0
		timing := (c.Index / 2) % 6 // 0 no late update, 1 before the responder's completion, 2 while its Complete message is being sent, 3 right after; 4, 5: finalization required from the start and released in two validation rounds
		ownFirst := (c.Index/12)%2 == 0
		tp := newTwoParty(c, pull, datatransfer.ValidationResult{Accepted: true, RequiresFinalization: timing >= 4})
		A, B, chid := tp.a, tp.b, tp.chid
		if va, vb := A.view(chid), B.view(chid); va == nil || vb == nil || va.Status != datatransfer.Ongoing || vb.Status != datatransfer.Ongoing {
			c.Note("setup: initiator %v responder %v", va, vb)
			tp.stop()
			return
		}
		late := func() {
			err := B.m.UpdateValidationStatus(bg, chid, datatransfer.ValidationResult{Accepted: true, RequiresFinalization: true})
			if err != nil {
				c.Count("late_update_refused", 1)
			} else {
				c.Count("late_update_applied", 1)
			}
		}
		var once sync.Once
		if timing == 2 {
			B.net.SetOnSend(func(p peer.ID, m datatransfer.Message) error {
				if rs, ok := m.(datatransfer.Response); ok && rs.IsComplete() {
					once.Do(func() {
						done := make(chan struct{})
						go func() { defer close(done); late() }()
						<-done
						c.Count("late_update_during_complete_send", 1)
					})
				}
				return nil
			})
		}
		// some payload moves first (the responder's side of the accounting is what its data limit looks at)
		moved := uint64(0)
		for i := 1; i <= 1+r.Intn(3); i++ {
			sz := uint64(100 + r.Intn(400))
			if pull {
				B.tp.Events().OnDataQueued(chid, dummyLink, sz, int64(i), true)
			} else {
				B.tp.Events().OnDataReceived(chid, dummyLink, sz, int64(i), true)
			}
			moved += sz
		}
		settle()
		if ownFirst {
			A.tp.Events().OnChannelCompleted(chid, nil)
			settle()
		}
		if timing == 1 {
			late()
			if r.Intn(2) == 0 {
				settle()
			}
		}
		B.tp.Events().OnChannelCompleted(chid, nil)
		if timing == 3 {
			late()
		}
		settle()
		if !ownFirst {
			A.tp.Events().OnChannelCompleted(chid, nil)
			settle()
		}
		if timing >= 4 {
			// round 1 lifts the finalization requirement but keeps the channel held (forced pause, or a data
			// limit that still binds); round 2 lets it go. Only then may either side complete.
			r1 := datatransfer.ValidationResult{Accepted: true, ForcePause: true}
			if timing == 5 {
				switch r.Intn(3) {
				case 0:
					r1 = datatransfer.ValidationResult{Accepted: true, RequiresFinalization: true, ForcePause: r.Intn(2) == 0}
				case 1:
					r1 = datatransfer.ValidationResult{Accepted: true, DataLimit: moved} // a limit that is used up holds the channel as well
				default:
					r1 = datatransfer.ValidationResult{Accepted: true, DataLimit: 1 + uint64(r.Intn(int(moved)))}
				}
			}
			B.m.UpdateValidationStatus(bg, chid, r1)
			settle()
			if va := A.view(chid); va != nil && va.Status == datatransfer.Completed {
				c.Violation("C01", "initiator-completed-while-responder-held", "the initiator reports Completed after validation round 1, which still holds the responder (%+v)", r1)
			}
			B.m.UpdateValidationStatus(bg, chid, datatransfer.ValidationResult{Accepted: true})
			settle()
			c.Count("two_round_finalizations", 1)
		}
		va, vb := A.view(chid), B.view(chid)
		if va != nil && va.Status == datatransfer.Completed {
			c.Count("initiator_completed", 1)
			if vb == nil || vb.Status != datatransfer.Completed {
				c.Violation("C01", "responder-not-completed "+fmt.Sprint(vb != nil && vb.Status == datatransfer.Finalizing), "initiator Completed but the responder is %v (pull=%v, late finalization requirement timing %d, own side first=%v)", vb, pull, timing, ownFirst)
			}
		} else {
			c.Count("initiator_waiting", 1)
		}
		c.Mark("pull=%v timing=%d ownFirst=%v ist=%v rst=%v", pull, timing, ownFirst, va != nil && va.Status == datatransfer.Completed, vb != nil && vb.Status == datatransfer.Completed)
		c.NonTrivial()
		if c.Index < 2 {
			c.Sample(map[string]any{"engine": "two managers, late finalization requirement", "pull": pull, "timing": timing, "initiator": fmt.Sprint(va), "responder": fmt.Sprint(vb)})
		}
		// end whatever is still open so that nothing outlives the bubble
		for _, side := range []*mgrFix{A, B} {
			if v := side.view(chid); v != nil && !isTerminal(v.Status) {
				side.m.CloseDataTransferChannel(bg, chid)
			}
		}
		settle()
		tp.stop()
	})
}
