package chk

import (
	"bytes"
	"context"
	"errors"
	"fmt"
	"strings"
	"sync"
	"testing"
	"time"

	"github.com/ipfs/go-graphsync"
	ipld "github.com/ipld/go-ipld-prime"
	"github.com/ipld/go-ipld-prime/codec/dagcbor"
	"github.com/ipld/go-ipld-prime/datamodel"
	"github.com/ipld/go-ipld-prime/node/basicnode"
	"github.com/libp2p/go-libp2p/core/peer"

	datatransfer "github.com/filecoin-project/go-data-transfer/v2"
	"github.com/filecoin-project/go-data-transfer/v2/message"
	gst "github.com/filecoin-project/go-data-transfer/v2/transport/graphsync"
	"github.com/filecoin-project/go-data-transfer/v2/transport/graphsync/extension"
	"github.com/filecoin-project/go-data-transfer/v2/transport/graphsync/testharness"

	"verif/harness/internal/doubles"
	"verif/harness/internal/gen"
	"verif/harness/internal/vf"
)

// ---- C16: the transport routes each graphsync event to its channel; none after cleanup -------

type trFix struct {
	c    *vf.Case
	self peer.ID
	gs   *doubles.FakeGS
	tr   *gst.Transport
	ev   *doubles.RecEvents
}

func newTrFix(c *vf.Case, self peer.ID) *trFix {
	f := &trFix{c: c, self: self, gs: doubles.NewFakeGS(), ev: &doubles.RecEvents{}}
	f.tr = gst.NewTransport(self, f.gs)
	if err := f.tr.SetEventHandler(f.ev); err != nil {
		panic(err)
	}
	return f
}

// tch is a channel as the transport-level harness knows it.
type tch struct {
	chid    datatransfer.ChannelID
	other   peer.ID
	out     bool // we are the graphsync requester
	ids     []graphsync.RequestID
	store   bool
	cleaned bool
}

func (t *tch) cur() graphsync.RequestID { return t.ids[len(t.ids)-1] }

// wireNode passes extension data through DAG-CBOR, as graphsync does when it carries the
// extension over the network (map keys arrive in canonical order, typed nodes become plain).
func wireNode(n datamodel.Node) datamodel.Node {
	var buf bytes.Buffer
	if err := dagcbor.Encode(n, &buf); err != nil {
		panic(err)
	}
	nb := basicnode.Prototype.Any.NewBuilder()
	if err := dagcbor.Decode(nb, &buf); err != nil {
		panic(err)
	}
	return nb.Build()
}

func dtExt(m datatransfer.Message) map[graphsync.ExtensionName]datamodel.Node {
	return map[graphsync.ExtensionName]datamodel.Node{extension.ExtensionDataTransfer1_1: wireNode(m.ToIPLD())}
}

// openOut opens (or re-opens) an outgoing graphsync request for a channel through the transport.
func (f *trFix) openOut(ch *tch, restart bool) error {
	var msg datatransfer.Message
	v := gen.SimpleVoucher("VT0", "v")
	if ch.chid.Initiator == f.self {
		msg, _ = message.NewRequest(ch.chid.ID, restart, true, &v, dummyCid, gen.AllSelector)
	} else {
		msg, _ = message.NewResponse(ch.chid.ID, true, false, nil)
	}
	n := f.gs.Len()
	err := f.tr.OpenChannel(bg, ch.other, ch.chid, dummyLink, gen.AllSelector, nil, msg)
	for _, gc := range f.gs.Calls()[n:] {
		if gc.Op == "request" {
			ch.ids = append(ch.ids, gc.ID)
		}
	}
	return err
}

// openIn fires an incoming graphsync request carrying the channel's data-transfer message.
func (f *trFix) openIn(ch *tch, restart bool) *testharness.FakeIncomingRequestHookActions {
	var msg datatransfer.Message
	v := gen.SimpleVoucher("VT0", "v")
	if ch.chid.Initiator == f.self {
		msg, _ = message.NewResponse(ch.chid.ID, true, false, nil) // push: the responder's request carries its response
	} else {
		msg, _ = message.NewRequest(ch.chid.ID, restart, true, &v, dummyCid, gen.AllSelector)
	}
	id := graphsync.NewRequestID()
	ch.ids = append(ch.ids, id)
	act := &testharness.FakeIncomingRequestHookActions{}
	f.gs.IncomingRequestHook(ch.other, doubles.Req(id, dtExt(msg)), act)
	return act
}

type expect struct {
	op   string
	chid datatransfer.ChannelID
}

func TestC16Route(t *testing.T) {
	vf.Run(t, "C16Route", vf.Opts{Bubble: true, DefaultN: 30}, func(c *vf.Case) {
		r := c.Rng
		peers := gen.Peers(r, 4)
		self := peers[0]
		f := newTrFix(c, self)
		var refuseMu sync.Mutex
		refuse := map[datatransfer.ChannelID]bool{}
		f.ev.SetReply(func(h doubles.HCall) (datatransfer.Message, error) {
			switch h.Op {
			case "OnChannelOpened":
				refuseMu.Lock()
				no := refuse[h.Chid]
				refuseMu.Unlock()
				if no {
					return nil, errors.New("channel is not tracked by the manager")
				}
			case "OnRequestReceived":
				if rq, ok := h.Msg.(datatransfer.Request); ok && (rq.IsNew() || rq.IsRestart()) {
					m, _ := message.NewResponse(h.Chid.ID, true, false, nil)
					return m, nil
				}
			case "OnDataQueued":
				if h.Index%7 == 6 {
					return message.UpdateResponse(h.Chid.ID, true), datatransfer.ErrPause
				}
			}
			return nil, nil
		})
		nch := 2 + r.Intn(7)
		var chs []*tch
		owner := map[graphsync.RequestID]*tch{}
		for i := 0; i < nch; i++ {
			other := peers[1+r.Intn(3)]
			tid := datatransfer.TransferID(1 + r.Intn(3)) // ids collide across peers and roles on purpose
			weInit := r.Intn(2) == 0
			ch := &tch{other: other, out: r.Intn(2) == 0}
			if weInit {
				ch.chid = datatransfer.ChannelID{Initiator: self, Responder: other, ID: tid}
			} else {
				ch.chid = datatransfer.ChannelID{Initiator: other, Responder: self, ID: tid}
			}
			// pull: initiator requests (out iff we initiated); push: responder requests
			dup := false
			for _, o := range chs {
				if o.chid == ch.chid {
					dup = true
				}
			}
			if dup {
				continue
			}
			if r.Intn(3) == 0 {
				if err := f.tr.UseStore(ch.chid, ipld.LinkSystem{}); err == nil {
					ch.store = true
				}
			}
			if ch.out && r.Intn(6) == 0 {
				// the events handler refuses the channel from inside the outgoing-request hook: the open
				// fails and the channel's lifetime is over - nothing of it may remain
				refuseMu.Lock()
				refuse[ch.chid] = true
				refuseMu.Unlock()
				err := f.openOut(ch, false)
				settle()
				if err == nil {
					c.Violation("C16", "refused-open-succeeded", "OnChannelOpened returned an error but OpenChannel succeeded")
				}
				if snap, ok := hookTransport(f.tr); ok {
					for _, tc := range snap.tracked {
						if tc == ch.chid {
							c.Violation("C16", "tracked-after-refused-open", "channel still tracked after its open was refused")
						}
					}
					for _, rc := range snap.routes {
						if rc == ch.chid {
							c.Violation("C16", "route-after-refused-open", "a request is routed to a channel whose open was refused")
						}
					}
				}
				for _, o := range f.gs.RegisteredOptions() {
					if o == "data-transfer-"+ch.chid.String() {
						c.Violation("C16", "store-registered-after-refused-open", "per-channel store still registered after the channel's open was refused (store configured: %v)", ch.store)
					}
				}
				c.Count("refused_opens", 1)
				refuseMu.Lock()
				delete(refuse, ch.chid)
				refuseMu.Unlock()
				continue
			}
			if ch.out {
				if err := f.openOut(ch, false); err != nil {
					c.Violation("C16", "open-failed", "OpenChannel: %v", err)
					continue
				}
			} else {
				f.openIn(ch, false)
			}
			for _, id := range ch.ids {
				owner[id] = ch
			}
			chs = append(chs, ch)
		}
		settle()
		if len(chs) == 0 {
			f.tr.Shutdown(bg)
			return
		}
		fire := func(desc string, want []expect, fn func()) {
			n := f.ev.Len()
			p, val, stack := vf.Recover(fn)
			if p {
				c.Violation("C16", "callback-panic "+desc+" "+vf.TopLibFrame(stack), "%s panicked: %v", desc, val)
				return
			}
			settle()
			got := f.ev.Calls()[n:]
			c.Count("callbacks", 1)
			c.Count("handler_calls", len(got))
			// every handler call must be one of the expected (op, channel) pairs
			used := make([]bool, len(want))
			for _, g := range got {
				ok := false
				for i, w := range want {
					if !used[i] && w.op == g.Op && w.chid == g.Chid {
						used[i], ok = true, true
						break
					}
				}
				if !ok {
					kind := "misrouted-event"
					if len(want) == 0 {
						kind = "event-for-unowned-callback"
					}
					c.Violation("C16", fmt.Sprintf("%s %s->%s", kind, firstWord(desc), g.Op), "%s produced %s for channel %s; expected %v", desc, g.Op, g.Chid, want)
					if strings.Contains(desc, "-ext(") {
						// a data-transfer message riding on a graphsync extension acted on a channel outside the sender's role
						c.Violation("C05", fmt.Sprintf("transport-role-confusion %s->%s", firstWord(desc), g.Op), "%s produced %s for channel %s although the sender's role does not allow it; expected %v", desc, g.Op, g.Chid, want)
					}
				}
			}
			for i, w := range want {
				if !used[i] {
					c.Violation("C16", fmt.Sprintf("missing-event %s->%s", firstWord(desc), w.op), "%s should have produced %s for %s, got %v", desc, w.op, w.chid, got)
				}
			}
		}
		steps := 20 + r.Intn(60)
		for s := 0; s < steps; s++ {
			ch := gen.Pick(r, chs)
			// which request id does the callback name?
			id := gen.Pick(r, ch.ids)
			kindOfID := "owned"
			switch r.Intn(8) {
			case 0:
				id, kindOfID = graphsync.NewRequestID(), "unknown"
			}
			own := owner[id]
			live := own != nil && !own.cleaned
			exp := func(op string) []expect {
				if !live {
					return nil
				}
				return []expect{{op, own.chid}}
			}
			p := ch.other
			size, idx := uint64(1+r.Intn(5000)), int64(1+r.Intn(50))
			onWire := r.Intn(4) != 0
			switch r.Intn(16) {
			case 0:
				fire(fmt.Sprintf("incoming-block(%s)", kindOfID), func() []expect {
					if !live {
						return nil
					}
					return []expect{{"OnDataReceived", own.chid}}
				}(), func() {
					f.gs.IncomingBlockHook(p, doubles.Resp(id, nil, graphsync.PartialResponse), doubles.Block(size, idx, onWire), &testharness.FakeIncomingBlockHookActions{})
				})
				if live {
					calls := f.ev.Calls()
					last := calls[len(calls)-1]
					if last.Op == "OnDataReceived" && last.Unique != onWire {
						c.Violation("C16", "unique-flag", "block with BlockSizeOnWire()!=0 == %v reported unique=%v", onWire, last.Unique)
						// the same observation decides the transport's half of C07 (a block that is not new on
						// the wire must reach the accounting as non-unique, or its bytes are counted again)
						c.Violation("C07", "transport-reports-repeated-block-as-unique", "incoming block with BlockSizeOnWire()!=0 == %v reported to the accounting with unique=%v", onWire, last.Unique)
					}
				}
			case 1:
				want := exp("OnDataQueued")
				if !onWire {
					want = nil
				}
				fire(fmt.Sprintf("outgoing-block(%s,onwire=%v)", kindOfID, onWire), want, func() {
					f.gs.OutgoingBlockHook(p, doubles.Req(id, nil), doubles.Block(size, idx, onWire), &testharness.FakeOutgoingBlockHookActions{})
				})
				if !onWire {
					c.Count("offwire_blocks", 1)
				}
			case 2:
				want := exp("OnDataSent")
				if !onWire {
					want = nil
				}
				fire(fmt.Sprintf("block-sent(%s,onwire=%v)", kindOfID, onWire), want, func() {
					f.gs.BlockSentListener(p, doubles.Req(id, nil), doubles.Block(size, idx, onWire))
				})
			case 3:
				fire(fmt.Sprintf("request-processing(%s)", kindOfID), exp("OnTransferInitiated"), func() {
					if r.Intn(2) == 0 {
						f.gs.IncomingRequestProcessingListener(p, doubles.Req(id, nil), 1)
					} else {
						f.gs.OutgoingRequestProcessingListener(p, doubles.Req(id, nil), 1)
					}
				})
			case 4:
				st := gen.Pick(r, []graphsync.ResponseStatusCode{graphsync.RequestCompletedFull, graphsync.RequestCompletedPartial, graphsync.RequestFailedUnknown, graphsync.RequestCancelled, graphsync.RequestRejected})
				want := exp("OnChannelCompleted")
				if st == graphsync.RequestCancelled {
					want = nil
				}
				fire(fmt.Sprintf("completed-response(%s,%d)", kindOfID, st), want, func() {
					f.gs.CompletedResponseListener(p, doubles.Req(id, nil), st)
				})
				if live && st != graphsync.RequestCancelled {
					calls := f.ev.Calls()
					last := calls[len(calls)-1]
					if last.Op == "OnChannelCompleted" && (last.Err == nil) != (st == graphsync.RequestCompletedFull) {
						c.Violation("C16", "completion-error-flag", "response completed with status %d reported err=%v", st, last.Err)
					}
					c.Count("completions", 1)
				}
			case 5:
				fire(fmt.Sprintf("requestor-cancelled(%s)", kindOfID), nil, func() {
					f.gs.RequestorCancelledListener(p, doubles.Req(id, nil))
				})
			case 6:
				fire(fmt.Sprintf("network-send-error(%s)", kindOfID), exp("OnSendDataError"), func() {
					f.gs.NetworkErrorListener(p, doubles.Req(id, nil), errors.New("net"))
				})
			case 7:
				// receive errors name a peer only: one report per live request route of that peer's channels
				var want []expect
				for rid, o := range owner {
					_ = rid
					if !o.cleaned && (o.chid.Initiator == p || o.chid.Responder == p) {
						want = append(want, expect{"OnReceiveDataError", o.chid})
					}
				}
				fire("network-receive-error(peer)", want, func() { f.gs.ReceiverNetworkErrorListener(p, errors.New("rcv")) })
			case 8:
				// response extension on one of our outgoing requests: accepted only in the proper role
				var m datatransfer.Message
				confused := r.Intn(3) == 0
				tid := own2tid(own, ch)
				if confused {
					m = message.UpdateRequest(tid, false) // a request arriving on a response
				} else {
					m = message.UpdateResponse(tid, r.Intn(2) == 0)
				}
				var want []expect
				if live && !confused && own.chid.Initiator == self && own.chid.Responder == p {
					want = []expect{{"OnResponseReceived", own.chid}}
				}
				if live && confused && own.chid.Initiator == p && own.chid.Responder == self {
					want = []expect{{"OnRequestReceived", own.chid}}
				}
				exts := map[graphsync.ExtensionName]datamodel.Node{gen.Pick(r, []graphsync.ExtensionName{extension.ExtensionIncomingRequest1_1, extension.ExtensionDataTransfer1_1, extension.ExtensionOutgoingBlock1_1}): m.ToIPLD()}
				fire(fmt.Sprintf("incoming-response-ext(%s,confused=%v)", kindOfID, confused), want, func() {
					f.gs.IncomingResponseHook(p, doubles.Resp(id, exts, graphsync.PartialResponse), &testharness.FakeIncomingResponseHookActions{})
				})
				if confused {
					c.Count("role_confused", 1)
				}
			case 9:
				var m datatransfer.Message
				confused := r.Intn(3) == 0
				tid := own2tid(own, ch)
				if confused {
					m = message.UpdateResponse(tid, false)
				} else {
					m = message.UpdateRequest(tid, r.Intn(2) == 0)
				}
				var want []expect
				if live && !confused && own.chid.Initiator == p && own.chid.Responder == self {
					want = []expect{{"OnRequestReceived", own.chid}}
				}
				if live && confused && own.chid.Initiator == self && own.chid.Responder == p {
					want = []expect{{"OnResponseReceived", own.chid}}
				}
				fire(fmt.Sprintf("request-updated-ext(%s,confused=%v)", kindOfID, confused), want, func() {
					f.gs.RequestUpdatedHook(p, doubles.Req(id, nil), doubles.Req(id, dtExt(m)), &testharness.FakeRequestUpdatedActions{})
				})
				if confused {
					c.Count("role_confused", 1)
				}
			case 10:
				// a graphsync request/response that is not ours at all (no data-transfer extension)
				nid := graphsync.NewRequestID()
				fire("foreign-incoming-request", nil, func() {
					f.gs.IncomingRequestHook(p, doubles.Req(nid, nil), &testharness.FakeIncomingRequestHookActions{})
					f.gs.OutgoingBlockHook(p, doubles.Req(nid, nil), doubles.Block(size, idx, true), &testharness.FakeOutgoingBlockHookActions{})
					f.gs.CompletedResponseListener(p, doubles.Req(nid, nil), graphsync.RequestCompletedFull)
				})
				c.Count("foreign_requests", 1)
			case 11:
				// pause / resume / close act on the channel's current request
				if ch.cleaned {
					continue
				}
				n := f.gs.Len()
				op := r.Intn(3)
				ctx, cancel := context.WithTimeout(bg, 5*time.Second)
				switch op {
				case 0:
					f.tr.PauseChannel(ctx, ch.chid)
				case 1:
					f.tr.ResumeChannel(ctx, message.UpdateResponse(ch.chid.ID, false), ch.chid)
				case 2:
					f.tr.CloseChannel(ctx, ch.chid)
				}
				cancel()
				settle()
				for _, gc := range f.gs.Calls()[n:] {
					if (gc.Op == "pause" || gc.Op == "unpause" || gc.Op == "cancel") && gc.ID != ch.cur() {
						c.Violation("C16", "control-on-stale-request "+gc.Op, "%s reached graphsync with request id %v, the channel's current request is %v (it has %d requests)", gc.Op, gc.ID, ch.cur(), len(ch.ids))
					}
				}
				c.Count("controls", 1)
			case 12:
				// restart: another request for the same channel
				if ch.cleaned || len(ch.ids) >= 3 {
					continue
				}
				if ch.out {
					ctx, cancel := context.WithTimeout(bg, 5*time.Second)
					err := f.openOut(ch, true)
					cancel()
					_ = ctx
					if err != nil {
						c.Note("re-open: %v", err)
					}
				} else {
					f.openIn(ch, true)
				}
				for _, rid := range ch.ids {
					owner[rid] = ch
				}
				settle()
				c.Count("restarts", 1)
			case 13:
				if ch.cleaned || r.Intn(3) != 0 {
					continue
				}
				f.tr.CleanupChannel(ch.chid)
				ch.cleaned = true
				settle()
				c.Count("cleanups", 1)
				if snap, ok := hookTransport(f.tr); ok {
					for _, tc := range snap.tracked {
						if tc == ch.chid {
							c.Violation("C16", "tracked-after-cleanup", "channel %s still tracked after CleanupChannel", ch.chid)
						}
					}
					for rid, rc := range snap.routes {
						if rc == ch.chid {
							c.Violation("C16", "route-after-cleanup", "request %v still routed to %s after CleanupChannel (channel had %d requests)", rid, ch.chid, len(ch.ids))
						}
					}
				}
				name := "data-transfer-" + ch.chid.String()
				for _, o := range f.gs.RegisteredOptions() {
					if o == name {
						c.Violation("C16", "store-registered-after-cleanup", "persistence option %s still registered after cleanup", name)
					}
				}
			default:
				continue
			}
		}
		// per-channel stores are registered for the channel's lifetime only
		reg := map[string]bool{}
		for _, o := range f.gs.RegisteredOptions() {
			reg[o] = true
		}
		for _, ch := range chs {
			name := "data-transfer-" + ch.chid.String()
			if ch.store && !ch.cleaned && !reg[name] {
				c.Violation("C16", "store-unregistered-while-alive", "persistence option %s missing although the channel is alive", name)
			}
			delete(reg, name)
		}
		for o := range reg {
			c.Violation("C16", "stray-persistence-option", "persistence option %s registered for no live channel", o)
		}
		c.Mark("nch=%d", len(chs))
		for _, ch := range chs {
			c.Mark("out=%v nreq=%d cleaned=%v store=%v", ch.out, len(ch.ids), ch.cleaned, ch.store)
		}
		c.NonTrivial()
		if c.Index < 2 {
			var cs []string
			for _, ch := range chs {
				cs = append(cs, fmt.Sprintf("tid=%d weInitiated=%v requester=%v requests=%d cleaned=%v", ch.chid.ID, ch.chid.Initiator == self, ch.out, len(ch.ids), ch.cleaned))
			}
			c.Sample(map[string]any{"channels": cs, "callbacks_fired": steps, "handler_calls": f.ev.Len()})
		}
		f.tr.Shutdown(bg)
		for _, ch := range chs {
			for _, id := range ch.ids {
				f.gs.Complete(id, nil)
			}
		}
		time.Sleep(time.Minute)
	})
}

func own2tid(own, ch *tch) datatransfer.TransferID {
	if own != nil {
		return own.chid.ID
	}
	return ch.chid.ID
}

// TestC16StaleOpen: pause, resume and cancel must address the channel's CURRENT graphsync request
// also after an OpenChannel that gave up. The caller's context ends while graphsync is still running
// the outgoing-request hook (or right after), so the open may return before it has consumed the id the
// hook parked for it; a later OpenChannel on the same channel object then issues a new request. Every
// control that follows must carry the id of that newest request.
func TestC16StaleOpen(t *testing.T) {
	vf.Run(t, "C16StaleOpen", vf.Opts{Bubble: true, DefaultN: 24}, func(c *vf.Case) {
		r := c.Rng
		peers := gen.Peers(r, 2)
		self, other := peers[0], peers[1]
		f := newTrFix(c, self)
		v := gen.SimpleVoucher("VT0", "v")
		initiator := c.Index%2 == 0 // pull initiator, or push responder (both issue the graphsync request)
		chid := datatransfer.ChannelID{Initiator: self, Responder: other, ID: datatransfer.TransferID(1 + r.Intn(1<<20))}
		var msg datatransfer.Message
		if initiator {
			msg, _ = message.NewRequest(chid.ID, false, true, &v, dummyCid, gen.AllSelector)
		} else {
			chid = datatransfer.ChannelID{Initiator: other, Responder: self, ID: chid.ID}
			msg, _ = message.NewResponse(chid.ID, true, false, nil)
		}
		abandoned := 0
		for i := 1 + r.Intn(3); i > 0; i-- {
			ctx, cancel := context.WithCancel(bg)
			when := r.Intn(3) // the caller gives up: 0 before the request is issued, 1 while the hook runs, 2 just after
			if when == 0 {
				cancel()
			}
			f.gs.BeforeHook = func() {
				if when == 1 {
					cancel()
				}
			}
			err := f.tr.OpenChannel(ctx, other, chid, dummyLink, gen.AllSelector, nil, msg)
			cancel()
			settle()
			if err != nil {
				abandoned++
			}
		}
		f.gs.BeforeHook = nil
		c.Count("abandoned_opens", abandoned)
		// the retry
		if err := f.tr.OpenChannel(bg, other, chid, dummyLink, gen.AllSelector, nil, msg); err != nil {
			c.Violation("C16", "open-failed", "OpenChannel after %d abandoned opens failed: %v", abandoned, err)
			f.tr.Shutdown(bg)
			return
		}
		settle()
		var cur graphsync.RequestID
		nreq := 0
		for _, gc := range f.gs.Calls() {
			if gc.Op == "request" {
				cur = gc.ID
				nreq++
			}
		}
		for i := 0; i < 3; i++ {
			n := f.gs.Len()
			op := []string{"pause", "resume", "close"}[i]
			ctx, cancel := context.WithTimeout(bg, 5*time.Second)
			switch i {
			case 0:
				f.tr.PauseChannel(ctx, chid)
			case 1:
				f.tr.ResumeChannel(ctx, nil, chid)
			case 2:
				f.tr.CloseChannel(ctx, chid)
			}
			cancel()
			settle()
			reached := false
			for _, gc := range f.gs.Calls()[n:] {
				if gc.Op == "pause" || gc.Op == "unpause" || gc.Op == "cancel" {
					reached = true
					if gc.ID != cur {
						c.Violation("C16", "control-on-stale-request "+gc.Op, "%s after %d abandoned opens reached graphsync with request id %v, the channel's current request is %v (%d requests issued)", op, abandoned, gc.ID, cur, nreq)
					}
				}
			}
			if reached {
				c.Count("controls_after_abandoned_open", 1)
			}
		}
		c.Mark("initiator=%v abandoned=%d requests=%d", initiator, abandoned, nreq)
		c.NonTrivial()
		if c.Index < 2 {
			c.Sample(map[string]any{"engine": "stale-open", "we_initiated": initiator, "abandoned_opens": abandoned, "graphsync_requests_issued": nreq})
		}
		time.Sleep(10 * time.Second)
		f.tr.Shutdown(bg)
		time.Sleep(time.Minute)
	})
}

// cleanupInHookActions is a graphsync hook-actions double whose MaxLinks call - made by the transport
// from inside its incoming-request hook - gives another goroutine the time to run CleanupChannel for the
// same channel to completion.
type cleanupInHookActions struct {
	testharness.FakeIncomingRequestHookActions
	during func()
}

func (a *cleanupInHookActions) MaxLinks(n uint64) {
	if a.during != nil {
		a.during()
	}
	a.FakeIncomingRequestHookActions.MaxLinks(n)
}

// TestC16CleanupInHook: CleanupChannel runs to completion on another goroutine while the transport's
// incoming-request hook for the same channel (a restart request) is in progress. After both have
// returned, the channel is cleaned up: every callback of either graphsync request must produce no
// channel event, and nothing of the channel may be left in the transport's tables.
func TestC16CleanupInHook(t *testing.T) {
	vf.Run(t, "C16CleanupInHook", vf.Opts{Bubble: true, DefaultN: 16}, func(c *vf.Case) {
		r := c.Rng
		peers := gen.Peers(r, 2)
		self, other := peers[0], peers[1]
		f := newTrFix(c, self)
		v := gen.SimpleVoucher("VT0", "v")
		tid := datatransfer.TransferID(1 + r.Intn(1<<20))
		chid := datatransfer.ChannelID{Initiator: other, Responder: self, ID: tid}
		req, _ := message.NewRequest(tid, false, true, &v, dummyCid, gen.AllSelector)
		id1 := graphsync.NewRequestID()
		f.gs.IncomingRequestHook(other, doubles.Req(id1, dtExt(req)), &testharness.FakeIncomingRequestHookActions{})
		if r.Intn(2) == 0 {
			f.gs.IncomingRequestProcessingListener(other, doubles.Req(id1, nil), 1)
			f.gs.OutgoingBlockHook(other, doubles.Req(id1, nil), doubles.Block(100, 1, true), &testharness.FakeOutgoingBlockHookActions{})
		}
		settle()
		restart, _ := message.NewRequest(tid, true, true, &v, dummyCid, gen.AllSelector)
		id2 := graphsync.NewRequestID()
		acts := &cleanupInHookActions{}
		acts.during = func() {
			done := make(chan struct{})
			go func() { defer close(done); f.tr.CleanupChannel(chid) }()
			<-done
			c.Count("cleanup_completed_inside_hook", 1)
		}
		f.gs.IncomingRequestHook(other, doubles.Req(id2, dtExt(restart)), acts)
		settle()
		nev := f.ev.Len()
		// every callback graphsync can still make for the two requests
		for _, id := range []graphsync.RequestID{id1, id2} {
			rq := doubles.Req(id, nil)
			f.gs.IncomingRequestProcessingListener(other, rq, 1)
			f.gs.OutgoingBlockHook(other, rq, doubles.Block(200, 2, true), &testharness.FakeOutgoingBlockHookActions{})
			f.gs.BlockSentListener(other, rq, doubles.Block(200, 2, true))
			f.gs.RequestUpdatedHook(other, rq, doubles.Req(id, dtExt(message.UpdateRequest(tid, false))), &testharness.FakeRequestUpdatedActions{})
			f.gs.NetworkErrorListener(other, rq, errors.New("network error"))
			f.gs.CompletedResponseListener(other, rq, graphsync.RequestCompletedFull)
			f.gs.RequestorCancelledListener(other, rq)
		}
		settle()
		for _, h := range f.ev.Calls()[nev:] {
			c.Violation("C16", "event-after-cleanup "+h.Op, "callback for a graphsync request of a cleaned-up channel produced the channel event %s", h.Op)
		}
		if snap, ok := hookTransport(f.tr); ok {
			for _, tc := range snap.tracked {
				if tc == chid {
					c.Violation("C16", "tracked-after-cleanup", "channel still tracked after CleanupChannel ran inside the hook")
				}
			}
			for rid, rc := range snap.routes {
				if rc == chid {
					c.Violation("C16", "route-after-cleanup", "request %v still routed to the channel after CleanupChannel ran inside its hook", rid)
				}
			}
		}
		c.Mark("idx=%d", c.Index%2)
		c.NonTrivial()
		if c.Index < 1 {
			c.Sample(map[string]any{"engine": "cleanup inside the incoming-request hook", "events_after_cleanup": f.ev.Len() - nev})
		}
		f.tr.Shutdown(bg)
		time.Sleep(time.Minute)
	})
}

// TestC16Fanout: one graphsync event that concerns several channels at once (a receive error for a
// peer is reported to every request of that peer) while the handler's reaction to the first
// notification cleans the other channels up from another goroutine. A channel whose CleanupChannel has
// RETURNED gets no event any more; one that is still being cleaned up may. Also: a store applied twice
// to a channel (every restart re-applies transport options) is released when the channel is cleaned up.
func TestC16Fanout(t *testing.T) {
	vf.Run(t, "C16Fanout", vf.Opts{Bubble: true, DefaultN: 16}, func(c *vf.Case) {
		r := c.Rng
		peers := gen.Peers(r, 2)
		self, other := peers[0], peers[1]
		f := newTrFix(c, self)
		v := gen.SimpleVoucher("VT0", "v")
		n := 3 + r.Intn(4)
		var chids []datatransfer.ChannelID
		for i := 0; i < n; i++ {
			chid := datatransfer.ChannelID{Initiator: self, Responder: other, ID: datatransfer.TransferID(100 + i)}
			if i%2 == 0 {
				// applied before the open and again afterwards, as a restart does
				f.tr.UseStore(chid, ipld.LinkSystem{})
			}
			msg, _ := message.NewRequest(chid.ID, false, true, &v, dummyCid, gen.AllSelector)
			if err := f.tr.OpenChannel(bg, other, chid, dummyLink, gen.AllSelector, nil, msg); err != nil {
				panic(err)
			}
			if i%2 == 0 {
				f.tr.UseStore(chid, ipld.LinkSystem{})
			}
			chids = append(chids, chid)
		}
		settle()
		var mu sync.Mutex
		cleanedAt := map[datatransfer.ChannelID]int64{} // stamp at which CleanupChannel returned
		var once sync.Once
		f.ev.SetReply(func(h doubles.HCall) (datatransfer.Message, error) {
			if h.Op == "OnReceiveDataError" {
				once.Do(func() {
					for _, ch := range chids {
						if ch != h.Chid {
							ch := ch
							go func() {
								f.tr.CleanupChannel(ch)
								mu.Lock()
								cleanedAt[ch] = doubles.NextSeq()
								mu.Unlock()
							}()
						}
					}
					doubles.Yield(400) // the handler takes a moment
				})
			}
			return nil, nil
		})
		nev := f.ev.Len()
		f.gs.ReceiverNetworkErrorListener(other, errors.New("connection reset by peer"))
		settle()
		mu.Lock()
		for _, h := range f.ev.Calls()[nev:] {
			if at, ok := cleanedAt[h.Chid]; ok && h.Seq > at {
				c.Violation("C16", "event-after-cleanup "+h.Op, "%s delivered for a channel whose CleanupChannel had already returned (fan-out of one receive error over %d channels)", h.Op, n)
			}
			c.Count("fanout_events", 1)
		}
		mu.Unlock()
		for _, ch := range chids {
			f.tr.CleanupChannel(ch)
		}
		settle()
		if opts := f.gs.RegisteredOptions(); len(opts) > 0 {
			c.Violation("C16", "store-registered-after-cleanup", "every channel was cleaned up, graphsync still holds the persistence option(s) %v", opts)
		}
		for _, gc := range f.gs.Calls() { // graphsync winds the requests up, so that nothing outlives the bubble
			if gc.Op == "request" {
				f.gs.Complete(gc.ID, nil)
			}
		}
		settle()
		c.Mark("n=%d", n)
		c.NonTrivial()
		if c.Index < 1 {
			c.Sample(map[string]any{"engine": "receive-error fan-out with cleanup from the handler; store applied twice", "channels": n})
		}
		f.tr.Shutdown(bg)
		time.Sleep(time.Minute)
	})
}
