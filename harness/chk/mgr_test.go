package chk

import (
	"fmt"
	"sync"
	"testing/synctest"

	"github.com/ipfs/go-cid"
	"github.com/libp2p/go-libp2p/core/peer"

	datatransfer "github.com/filecoin-project/go-data-transfer/v2"
	"github.com/filecoin-project/go-data-transfer/v2/channelmonitor"
	dtimpl "github.com/filecoin-project/go-data-transfer/v2/impl"

	"verif/harness/internal/doubles"
	"verif/harness/internal/gen"
	"verif/harness/internal/vf"
)

// voucher types every fixture registers a validator for
var regTypes = []string{"VT0", "VT1", "VT2"}

// mgrFix is a real manager (impl) over recording doubles at every boundary.
type mgrFix struct {
	c    *vf.Case
	self peer.ID
	ds   *doubles.RecDS
	net  *doubles.RecNet
	tp   *doubles.RecTransport
	val  *doubles.RecValidator
	sub  *doubles.SubLog
	m    datatransfer.Manager
	mon  *channelmonitor.Config
	// readyErr is what the OnReady listener got
	readyErr error
	unsub    datatransfer.Unsubscribe
	plain    bool // not inside a synctest bubble: wait for readiness on a channel
}

type mgrOpt func(*mgrFix)

func withMonitor(cfg channelmonitor.Config) mgrOpt { return func(f *mgrFix) { f.mon = &cfg } }
func withoutTypes() mgrOpt                         { return func(f *mgrFix) { f.val = nil } }
func outsideBubble() mgrOpt                        { return func(f *mgrFix) { f.plain = true } }

// newMgrFixPlain builds a fixture for tests that run on the real clock (no bubble).
func newMgrFixPlain(c *vf.Case, self peer.ID, ds *doubles.RecDS) *mgrFix {
	return newMgrFix(c, self, ds, outsideBubble())
}

func newMgrFix(c *vf.Case, self peer.ID, ds *doubles.RecDS, opts ...mgrOpt) *mgrFix {
	if ds == nil {
		ds = doubles.NewRecDS()
	}
	f := &mgrFix{c: c, self: self, ds: ds, net: doubles.NewRecNet(self), tp: doubles.NewRecTransport(), val: doubles.NewRecValidator(), sub: &doubles.SubLog{}}
	for _, o := range opts {
		o(f)
	}
	probe := func(where string, st datatransfer.ChannelState) {
		_, p := doubles.ViewOf(st)
		probeC19(c, where, p)
	}
	f.tp.Probe = probe
	var dopts []dtimpl.DataTransferOption
	if f.mon != nil {
		dopts = append(dopts, dtimpl.ChannelRestartConfig(*f.mon))
	}
	m, err := dtimpl.NewDataTransfer(ds, f.net, f.tp, dopts...)
	if err != nil {
		panic(fmt.Sprintf("NewDataTransfer: %v", err))
	}
	f.m = m
	if f.val != nil {
		f.val.Probe = probe
		for _, t := range regTypes {
			if err := m.RegisterVoucherType(datatransfer.TypeIdentifier(t), f.val.For(t)); err != nil {
				panic(err)
			}
		}
	}
	inner := f.sub.Fn()
	f.unsub = m.SubscribeToEvents(func(ev datatransfer.Event, st datatransfer.ChannelState) {
		inner(ev, st)
	})
	var mu sync.Mutex
	ready := make(chan struct{})
	m.OnReady(func(e error) { mu.Lock(); f.readyErr = e; mu.Unlock(); close(ready) })
	if err := m.Start(bg); err != nil {
		panic(fmt.Sprintf("manager.Start: %v", err))
	}
	if f.plain {
		<-ready
	} else {
		synctest.Wait()
	}
	for _, e := range f.sub.Events() {
		probeC19(c, "subscriber", e.Panic)
	}
	return f
}

// stop stops the manager and waits for quiescence.
func (f *mgrFix) stop() {
	f.m.Stop(bg)
	if !f.plain {
		synctest.Wait()
	}
}

// reopen stops this manager and starts a fresh one (fresh doubles) on the same datastore.
func (f *mgrFix) reopen(opts ...mgrOpt) *mgrFix {
	f.stop()
	return newMgrFix(f.c, f.self, f.ds, opts...)
}

func (f *mgrFix) view(chid datatransfer.ChannelID) *doubles.StateView {
	st, err := f.m.ChannelState(bg, chid)
	if err != nil || st == nil {
		return nil
	}
	v, p := doubles.ViewOf(st)
	probeC19(f.c, "manager.ChannelState", p)
	return v
}

func (f *mgrFix) status(chid datatransfer.ChannelID) datatransfer.Status {
	v := f.view(chid)
	if v == nil {
		return datatransfer.ChannelNotFoundError
	}
	return v.Status
}

// checkProbes reports accessor panics seen by the subscriber log (C19) - call at case end.
func (f *mgrFix) checkProbes() {
	for _, e := range f.sub.Events() {
		probeC19(f.c, "subscriber", e.Panic)
	}
}

// open opens a channel as initiator.
func (f *mgrFix) open(pull bool, to peer.ID, v datatransfer.TypedVoucher, root cid.Cid, opts ...datatransfer.TransferOption) (datatransfer.ChannelID, error) {
	if pull {
		return f.m.OpenPullDataChannel(bg, to, v, root, gen.AllSelector, opts...)
	}
	return f.m.OpenPushDataChannel(bg, to, v, root, gen.AllSelector, opts...)
}

// bridge emulates how the graphsync transport carries data-transfer messages between two
// managers that both run over RecTransport doubles: the message given to OpenChannel travels as
// an extension of the graphsync request to the other side's events handler, its reply travels
// back on the response; the message given to ResumeChannel travels as an update.
// Deliveries happen in fresh goroutines after the recorded call returned, as a network would.
type bridge struct {
	a, b *mgrFix
	mu   sync.Mutex
	// hold captures deliveries for manual release when set
	hold func(to *mgrFix, chid datatransfer.ChannelID, msg datatransfer.Message, deliver func()) bool
	// log of deliveries with the handler's verdict (what the real transport would act on)
	log []brDelivery
}

// brDelivery is one message carried by the emulated transport and the handler's answer.
type brDelivery struct {
	To   *mgrFix
	Chid datatransfer.ChannelID
	Msg  datatransfer.Message
	Err  error
	Seq  int64
}

func (br *bridge) deliveries() []brDelivery {
	br.mu.Lock()
	defer br.mu.Unlock()
	return append([]brDelivery(nil), br.log...)
}
func (br *bridge) note(to *mgrFix, chid datatransfer.ChannelID, m datatransfer.Message, err error) {
	br.mu.Lock()
	br.log = append(br.log, brDelivery{to, chid, m, err, doubles.NextSeq()})
	br.mu.Unlock()
}

func newBridge(a, b *mgrFix) *bridge {
	br := &bridge{a: a, b: b}
	doubles.Link(a.net, b.net)
	install := func(from, to *mgrFix) {
		from.tp.SetOn(func(call *doubles.TCall) error {
			switch call.Op {
			case "open":
				msg := call.Msg
				chid := call.Chid
				go func() {
					// the outgoing-request hook fires on the opener first
					if err := from.tp.Events().OnChannelOpened(chid); err != nil {
						return
					}
					br.deliver(from, to, chid, msg)
				}()
			case "resume":
				if call.Msg != nil {
					msg, chid := call.Msg, call.Chid
					go br.deliver(from, to, chid, msg)
				}
			}
			return nil
		})
	}
	install(a, b)
	install(b, a)
	return br
}

// deliver hands msg (sent by `from` inside the transport) to `to`'s events handler and routes
// the reply of a request back to `from`.
func (br *bridge) deliver(from, to *mgrFix, chid datatransfer.ChannelID, msg datatransfer.Message) {
	wire, err := doubles.Reencode(msg)
	if err != nil {
		return
	}
	do := func() {
		if wire.IsRequest() {
			resp, err := to.tp.Events().OnRequestReceived(chid, wire.(datatransfer.Request))
			br.note(to, chid, wire, err)
			if resp != nil {
				rw, err := doubles.Reencode(resp)
				if err == nil {
					back := func() {
						err := from.tp.Events().OnResponseReceived(chid, rw.(datatransfer.Response))
						br.note(from, chid, rw, err)
					}
					br.mu.Lock()
					hr := br.hold
					br.mu.Unlock()
					if hr == nil || !hr(from, chid, rw, back) { // the reply travels back as a message of its own
						back()
					}
				}
			}
		} else {
			err := to.tp.Events().OnResponseReceived(chid, wire.(datatransfer.Response))
			br.note(to, chid, wire, err)
		}
	}
	br.mu.Lock()
	h := br.hold
	br.mu.Unlock()
	if h != nil && h(to, chid, wire, do) {
		return
	}
	do()
}

func min(a, b int) int {
	if a < b {
		return a
	}
	return b
}
