package chk

import (
	"bytes"
	"fmt"
	"github.com/ipfs/go-cid"
	"testing"

	"github.com/libp2p/go-libp2p/core/peer"

	datatransfer "github.com/filecoin-project/go-data-transfer/v2"
	"github.com/filecoin-project/go-data-transfer/v2/message"

	"verif/harness/internal/doubles"
	"verif/harness/internal/gen"
	"verif/harness/internal/vf"
)

// ---- C05: only the counterparty, in its proper role, can act on a channel --------------------

type popCh struct {
	chid    datatransfer.ChannelID
	role    role
	other   peer.ID
	voucher datatransfer.TypedVoucher
	later   *datatransfer.TypedVoucher // a voucher sent after opening (if any)
}

// buildPopulation opens 1-6 channels of all roles with several peers and colliding transfer ids.
func buildPopulation(c *vf.Case, f *mgrFix, peers []peer.ID) []*popCh {
	r := c.Rng
	var pop []*popCh
	n := 1 + r.Intn(6)
	var tids []datatransfer.TransferID
	for i := 0; i < n; i++ {
		rl := gen.Pick(r, allRoles)
		other := gen.Pick(r, peers)
		v := gen.Voucher(r, gen.Pick(r, regTypes))
		p := &popCh{role: rl, other: other, voucher: v}
		if rl.Initiator {
			chid, err := f.open(rl.Pull, other, v, dummyCid)
			if err != nil {
				continue
			}
			p.chid = chid
			tids = append(tids, chid.ID)
			settle()
			resp, _ := message.NewResponse(chid.ID, true, false, nil)
			f.deliverResponse(chid, rl.Pull, resp)
		} else {
			// reuse a transfer id already used by another channel when possible: ids collide across peers
			tid := datatransfer.TransferID(1000 + r.Intn(1<<20))
			if len(tids) > 0 && r.Intn(2) == 0 {
				tid = gen.Pick(r, tids)
			}
			chid := datatransfer.ChannelID{Initiator: other, Responder: f.self, ID: tid}
			if f.view(chid) != nil {
				continue
			}
			p.chid = f.mkResponder(rl.Pull, other, tid, v)
			if f.view(p.chid) == nil {
				continue
			}
			tids = append(tids, tid)
		}
		settle()
		if r.Intn(2) == 0 {
			f.tp.Events().OnTransferInitiated(p.chid)
		}
		if r.Intn(3) == 0 {
			lv := gen.Voucher(r, string(v.Type))
			if rl.Initiator {
				if f.m.SendVoucher(bg, p.chid, lv) == nil {
					p.later = &lv
				}
			} else {
				vr, _ := message.VoucherRequest(p.chid.ID, &lv)
				w, _ := doubles.Reencode(vr)
				f.net.Deliver(other, w)
				p.later = &lv
			}
		}
		settle()
		pop = append(pop, p)
	}
	return pop
}

type popSnap struct {
	bytes map[datatransfer.ChannelID][]byte
	nev   map[datatransfer.ChannelID]int
	ntp   int
}

func snapPop(f *mgrFix, pop []*popCh) popSnap {
	s := popSnap{bytes: map[datatransfer.ChannelID][]byte{}, nev: map[datatransfer.ChannelID]int{}, ntp: f.tp.Len()}
	all := f.ds.Snapshot()
	for _, p := range pop {
		s.bytes[p.chid] = all[keyFor(f.ds.Log(), p.chid)]
		s.nev[p.chid] = len(f.sub.For(p.chid))
	}
	return s
}

// touched lists the population channels whose stored record, event stream or transport changed.
func touched(f *mgrFix, pop []*popCh, s popSnap) map[datatransfer.ChannelID]string {
	out := map[datatransfer.ChannelID]string{}
	all := f.ds.Snapshot()
	for _, p := range pop {
		if !bytes.Equal(all[keyFor(f.ds.Log(), p.chid)], s.bytes[p.chid]) {
			out[p.chid] += "record "
		}
		if n := len(f.sub.For(p.chid)); n != s.nev[p.chid] {
			out[p.chid] += fmt.Sprintf("event:%s ", f.sub.For(p.chid)[s.nev[p.chid]].Code)
		}
	}
	for _, tc := range f.tp.CallsFrom(s.ntp) {
		for _, p := range pop {
			if tc.Chid == p.chid {
				out[p.chid] += "transport:" + tc.Op + " "
			}
		}
	}
	return out
}

func TestC05Messages(t *testing.T) {
	vf.Run(t, "C05Messages", vf.Opts{Bubble: true, DefaultN: 40}, func(c *vf.Case) {
		r := c.Rng
		peers := gen.Peers(r, 5)
		self, stranger := peers[0], peers[4]
		f := newMgrFix(c, self, nil)
		pop := buildPopulation(c, f, peers[1:4])
		if len(pop) == 0 {
			f.stop()
			return
		}
		nmsgs := 12 + r.Intn(20)
		for i := 0; i < nmsgs; i++ {
			target := gen.Pick(r, pop)
			sender := target.other
			senderKind := "counterparty"
			switch r.Intn(4) {
			case 0:
				sender, senderKind = stranger, "stranger"
			case 1:
				sender, senderKind = self, "self"
			case 2:
				// another channel's counterparty (a real peer of this node, but not of this channel)
				o := gen.Pick(r, pop)
				if o.other != target.other {
					sender, senderKind = o.other, "other-channels-peer"
				}
			}
			tid := target.chid.ID
			if r.Intn(6) == 0 {
				tid = datatransfer.TransferID(r.Uint64())
			}
			tv := gen.Voucher(r, string(target.voucher.Type))
			var m datatransfer.Message
			isReq := r.Intn(2) == 0
			var kind string
			if isReq {
				switch r.Intn(5) {
				case 0:
					m, kind = message.UpdateRequest(tid, r.Intn(2) == 0), "update-request"
				case 1:
					m, kind = message.CancelRequest(tid), "cancel-request"
				case 2:
					m, _ = message.VoucherRequest(tid, &tv)
					kind = "voucher-request"
				case 3:
					m, _ = message.NewRequest(tid, true, target.role.Pull, &target.voucher, dummyCid, gen.AllSelector)
					kind = "restart-request"
				default:
					m, kind = message.RestartExistingChannelRequest(target.chid), "restart-existing"
				}
			} else {
				switch r.Intn(6) {
				case 0:
					m, kind = message.UpdateResponse(tid, r.Intn(2) == 0), "update-response"
				case 1:
					m, kind = message.CancelResponse(tid), "cancel-response"
				case 2:
					m, _ = message.VoucherResultResponse(tid, r.Intn(2) == 0, r.Intn(2) == 0, &tv)
					kind = "voucher-result-response"
				case 3:
					m, _ = message.CompleteResponse(tid, true, r.Intn(2) == 0, nil)
					kind = "complete-response"
				case 4:
					m, _ = message.RestartResponse(tid, true, false, nil)
					kind = "restart-response"
				default:
					m, _ = message.NewResponse(tid, r.Intn(2) == 0, false, nil)
					kind = "new-response"
				}
			}
			w, _ := doubles.Reencode(m)
			s := snapPop(f, pop)
			p, val, stack := vf.Recover(func() { f.net.Deliver(sender, w) })
			if p {
				c.Violation("C05", "panic-on-message "+kind+" "+vf.TopLibFrame(stack), "%s from %s panicked: %v", kind, senderKind, val)
			}
			settle()
			tch := touched(f, pop, s)
			// which channel may this message legitimately act on?
			var legit datatransfer.ChannelID
			hasLegit := false
			if kind == "restart-existing" {
				// names a channel explicitly; legitimate only from its counterparty when we initiated it
				if sender == target.other && target.chid.Initiator == self {
					legit, hasLegit = target.chid, true
				}
			} else if isReq {
				legit, hasLegit = datatransfer.ChannelID{Initiator: sender, Responder: self, ID: tid}, true
			} else {
				legit, hasLegit = datatransfer.ChannelID{Initiator: self, Responder: sender, ID: tid}, true
			}
			for chid, what := range tch {
				if hasLegit && chid == legit {
					continue
				}
				role := "?"
				for _, p := range pop {
					if p.chid == chid {
						role = p.role.String()
					}
				}
				c.Violation("C05", fmt.Sprintf("foreign-message-touched-channel %s from %s: %s", kind, senderKind, firstWord(what)),
					"%s (tid %d) from %s changed channel %s (%s) which it has no business with: %s", kind, tid, senderKind, chid, role, what)
			}
			if _, ok := tch[legit]; ok && hasLegit {
				c.Count("legit_effects", 1)
			}
			c.Count("messages", 1)
			c.Count("from."+senderKind, 1)
		}
		// local role checks
		for _, p := range pop {
			s := snapPop(f, pop)
			tv := gen.Voucher(r, string(p.voucher.Type))
			if p.role.Initiator {
				e1 := f.m.SendVoucherResult(bg, p.chid, tv)
				// every shape of validation update: accepting (with and without a result, limit, pause,
				// finalization) and rejecting - an initiator may send none of them
				upd := []datatransfer.ValidationResult{
					{Accepted: true, DataLimit: 5},
					{Accepted: true, VoucherResult: &tv, ForcePause: true, RequiresFinalization: true},
					{Accepted: false},
					{Accepted: false, VoucherResult: &tv},
				}[r.Intn(4)]
				e2 := f.m.UpdateValidationStatus(bg, p.chid, upd)
				settle()
				if e1 == nil || e2 == nil {
					c.Violation("C05", "initiator-sent-result-or-validation", "initiator could SendVoucherResult (%v) / UpdateValidationStatus%+v (%v)", e1, upd, e2)
				}
			} else {
				e := f.m.SendVoucher(bg, p.chid, tv)
				settle()
				if e == nil {
					c.Violation("C05", "responder-sent-voucher", "responder could SendVoucher")
				}
			}
			if tch := touched(f, pop, s); len(tch) > 0 {
				c.Violation("C05", "wrong-role-api-call-changed-state", "a refused local API call changed %v", tch)
			}
			c.Count("local_role_checks", 1)
		}
		f.checkProbes()
		c.Mark("pop=%d", len(pop))
		for _, p := range pop {
			c.Mark("role=%s", p.role)
		}
		c.NonTrivial()
		if c.Index < 2 {
			var ps []string
			for _, p := range pop {
				ps = append(ps, fmt.Sprintf("%s tid=%d", p.role, p.chid.ID))
			}
			c.Sample(map[string]any{"population": ps, "messages": nmsgs})
		}
		f.stop()
	})
}

func firstWord(s string) string {
	for i := 0; i < len(s); i++ {
		if s[i] == ' ' || s[i] == ':' {
			return s[:i]
		}
	}
	return s
}

// TestC05Restart: restart requests and restart-existing requests are honoured only when genuine.
func TestC05Restart(t *testing.T) {
	vf.Run(t, "C05Restart", vf.Opts{Bubble: true, DefaultN: 48}, func(c *vf.Case) {
		r := c.Rng
		peers := gen.Peers(r, 4)
		self, other, stranger := peers[0], peers[1], peers[2]
		pull := c.Index%2 == 0
		mut := (c.Index / 2) % 12
		f := newMgrFix(c, self, nil)
		v := gen.Voucher(r, gen.Pick(r, regTypes))
		tid := datatransfer.TransferID(1 + r.Intn(1<<30))
		if mut >= 8 {
			// ---- restart-existing-channel requests against a channel we initiated (or not)
			weInitiated := mut != 10
			var chid datatransfer.ChannelID
			if weInitiated {
				chid, _ = f.open(pull, other, v, dummyCid)
				settle()
				resp, _ := message.NewResponse(chid.ID, true, false, nil)
				f.deliverResponse(chid, pull, resp)
			} else {
				chid = f.mkResponder(pull, other, tid, v)
			}
			settle()
			if mut == 11 {
				mgrToTerminal(f, chid, role{weInitiated, pull}, terminals[r.Intn(3)], 0)
			}
			sender := other
			if mut == 9 {
				sender = stranger
			}
			nnet, ntp := f.net.Len(), f.tp.Len()
			w, _ := doubles.Reencode(message.RestartExistingChannelRequest(chid))
			f.net.Deliver(sender, w)
			settle()
			reissued := doubles.CountOp(f.tp.CallsFrom(ntp), "open", chid) > 0
			for _, s := range f.net.Sends(nnet) {
				if rq, ok := s.Msg.(datatransfer.Request); ok && rq.IsRestart() && rq.TransferID() == chid.ID {
					reissued = true
				}
			}
			genuine := mut == 8
			if reissued != genuine {
				c.Violation("C05", fmt.Sprintf("restart-existing honoured=%v case=%d", reissued, mut), "restart-existing-channel request (case %d: 8 genuine, 9 stranger, 10 not our channel, 11 terminated) re-issued=%v", mut, reissued)
			}
			c.Count("restart_existing", 1)
			c.Mark("mut=%d pull=%v", mut, pull)
			c.NonTrivial()
			f.checkProbes()
			f.stop()
			return
		}
		// ---- restart requests against a responder channel
		chid := f.mkResponder(pull, other, tid, v)
		var later *datatransfer.TypedVoucher
		if r.Intn(2) == 0 || mut == 7 {
			lv := gen.Voucher(r, string(v.Type))
			for doubles.CBOR(lv.Voucher) == doubles.CBOR(v.Voucher) {
				lv = gen.Voucher(r, string(v.Type))
			}
			vr, _ := message.VoucherRequest(tid, &lv)
			w, _ := doubles.Reencode(vr)
			f.net.Deliver(other, w)
			settle()
			later = &lv
		}
		rv, rcid, rtid, rsender := v, dummyCid, tid, other
		desc := "genuine"
		switch mut {
		case 0:
		case 1:
			rcid, desc = gen.Cid(r), "base-cid"
			if r.Intn(2) == 0 {
				// the same multihash under another codec / CID version: a different root, not the original base CID
				codec := uint64(cid.Raw)
				if dummyCid.Prefix().Codec == cid.Raw {
					codec = cid.DagCBOR
				}
				rcid, desc = cid.NewCidV1(codec, dummyCid.Hash()), "base-cid-same-multihash"
			}
		case 2:
			rv.Type, desc = datatransfer.TypeIdentifier(gen.Pick(r, regTypes)+"x"), "voucher-type"
			if r.Intn(2) == 0 {
				for _, t := range regTypes {
					if t != string(v.Type) {
						rv.Type = datatransfer.TypeIdentifier(t)
					}
				}
			}
		case 3:
			rv, desc = gen.Voucher(r, string(v.Type)), "voucher-node"
			for doubles.CBOR(rv.Voucher) == doubles.CBOR(v.Voucher) { // make sure it really differs
				rv = gen.Voucher(r, string(v.Type))
			}
		case 4:
			rsender, desc = stranger, "sender"
		case 5:
			rtid, desc = tid+1, "transfer-id"
		case 6:
			mgrToTerminal(f, chid, role{false, pull}, terminals[r.Intn(3)], 0)
			desc = "terminated"
		case 7:
			rv, desc = *later, "later-voucher"
		}
		before := f.view(chid)
		nval := len(f.val.Calls())
		nnet, ntp := f.net.Len(), f.tp.Len()
		nev := len(f.sub.For(chid))
		req, _ := message.NewRequest(rtid, true, pull, &rv, rcid, gen.AllSelector)
		w, _ := doubles.Reencode(req)
		rchid := datatransfer.ChannelID{Initiator: rsender, Responder: self, ID: rtid}
		var returned datatransfer.Response
		if pull && r.Intn(2) == 0 {
			returned, _ = f.tp.Events().OnRequestReceived(rchid, w.(datatransfer.Request))
		} else {
			f.net.Deliver(rsender, w)
		}
		settle()
		reply, _ := replyOf(f, rchid, returned, nnet, ntp)
		revalidated := false
		for _, vc := range f.val.Calls()[nval:] {
			if vc.Kind == "restart" && vc.Chid == chid {
				revalidated = true
			}
		}
		restartEv := false
		for _, e := range f.sub.For(chid)[nev:] {
			if e.Code == datatransfer.Restart {
				restartEv = true
			}
		}
		reopened := doubles.CountOp(f.tp.CallsFrom(ntp), "open", chid) > 0
		honoured := revalidated || restartEv || reopened || (reply != nil && reply.Accepted() && rchid == chid)
		if mut == 0 {
			if !(revalidated && restartEv && reply != nil && reply.Accepted()) {
				c.Violation("C05", "genuine-restart-not-honoured", "genuine restart request (later voucher present=%v): revalidated=%v restart-event=%v reply=%v", later != nil, revalidated, restartEv, reply)
			}
			c.Count("genuine_restarts", 1)
		} else if honoured {
			c.Violation("C05", "mutated-restart-honoured "+desc, "restart request differing in %s was honoured (revalidated=%v restart-event=%v reopened=%v accepted-reply=%v)", desc, revalidated, restartEv, reopened, reply != nil && reply.Accepted())
		}
		if mut == 4 || mut == 5 {
			// not the counterparty / not this channel: the existing channel must be completely untouched
			after := f.view(chid)
			if d := doubles.Diff(before, after, true); len(d) > 0 {
				c.Violation("C05", "foreign-restart-touched-channel "+desc, "restart request with a different %s changed the existing channel: %v", desc, d)
			}
			for _, tc := range f.tp.CallsFrom(ntp) {
				if tc.Chid == chid {
					c.Violation("C05", "foreign-restart-touched-transport "+desc, "restart request with a different %s caused transport %s on the existing channel", desc, tc.Op)
				}
			}
		}
		c.Count("restart_mutations", 1)
		c.Mark("mut=%d pull=%v later=%v", mut, pull, later != nil)
		c.NonTrivial()
		if c.Index < 3 {
			c.Sample(map[string]any{"pull": pull, "mutation": desc, "later_voucher_present": later != nil, "honoured": honoured})
		}
		f.checkProbes()
		f.stop()
	})
}
