#!/bin/bash
# Confirms one seeded change produced by a sub-agent, independently, in a scratch worktree of the pinned commit:
#   builds with patch; full existing suite passes with patch; demo fails with patch; demo passes without.
# usage: confirm_seed.sh <Cxx> <n>     (reads /tmp/seed/<Cxx>/out/patch<n>.diff, demo<n>_test.go.txt)
# Result: /verif/seeded/<Cxx>-<n>/{patch.diff,demo_test.go.txt,meta.json}; scratch worktree removed.
# round 2 (changes written against the repaired tree): SEEDROOT=/tmp/seed2 PIN=<commit> confirm_seed.sh <Cxx> <n> <m>
#   reads $SEEDROOT/<Cxx>/out/patch<n>.diff and writes /verif/seeded/<Cxx>-<m>/
ID=$1; N=$2; M=${3:-$2}
SRC=${SEEDROOT:-/tmp/seed}/$ID/out
PIN=${PIN:-1ef84df}
W=/tmp/confirm/$ID-$M
OUT=/verif/seeded/$ID-$M
export GOFLAGS=-mod=mod GOPROXY=off
[ -f $SRC/patch$N.diff ] || { echo "no patch $SRC/patch$N.diff"; exit 2; }
[ -f $SRC/demo${N}_test.go.txt ] || { echo "no demo"; exit 2; }
mkdir -p /tmp/confirm $OUT
git -C /repo worktree remove --force $W 2>/dev/null
git -C /repo worktree add --detach $W $PIN >/dev/null 2>&1 || exit 2
cd $W
DIR=$(head -1 $SRC/demo${N}_test.go.txt | sed -n 's#^// package-dir: *##p' | tr -d ' \r')
[ -n "$DIR" ] || { echo "demo has no package-dir line"; DIR=""; }
res() { echo "$1" >> $OUT/log.txt; }
: > $OUT/log.txt
git apply $SRC/patch$N.diff 2>>$OUT/log.txt || { res "APPLY-FAILED"; git -C /repo worktree remove --force $W; exit 1; }
if git diff --name-only | grep -q '_test.go$'; then res "PATCH-TOUCHES-TEST-FILES"; fi
FILES=$(git diff --name-only | tr '\n' ' ')
BUILD=fail; go build ./... >>$OUT/log.txt 2>&1 && BUILD=ok
SUITE=fail
for try in 1 2 3; do
  if timeout 1200 go test -vet=off -count=1 ./... > $OUT/suite.$try.txt 2>&1; then SUITE=ok; break; fi
  grep -E "^(--- FAIL|FAIL|ok)" $OUT/suite.$try.txt | head -20 >> $OUT/log.txt
done
tail -n +2 $SRC/demo${N}_test.go.txt > $W/$DIR/zz_seeded_demo_test.go
DEMO_WITH=pass
timeout 600 go test -vet=off -count=1 ./$DIR/ > $OUT/demo_with.txt 2>&1 || DEMO_WITH=fail
git checkout -- . 
DEMO_WITHOUT=fail
timeout 600 go test -vet=off -count=1 ./$DIR/ > $OUT/demo_without.txt 2>&1 && DEMO_WITHOUT=pass
cp $SRC/patch$N.diff $OUT/patch.diff
cp $SRC/demo${N}_test.go.txt $OUT/demo_test.go.txt
cp $SRC/NOTES.md $OUT/AGENT_NOTES.md 2>/dev/null
python3 - <<PY
import json
ok = "$BUILD"=="ok" and "$SUITE"=="ok" and "$DEMO_WITH"=="fail" and "$DEMO_WITHOUT"=="pass"
json.dump(dict(id="$ID-$M", property="$ID", pinned_commit="$PIN", files_touched="$FILES".split(), demo_package_dir="$DIR",
  confirmed=ok,
  ran=dict(build_with_patch="go build ./... -> $BUILD", suite_with_patch="go test -vet=off -count=1 ./... -> $SUITE (up to 3 tries, itest is timing-flaky under load)",
           demo_with_patch="go test ./$DIR/ -> $DEMO_WITH", demo_without_patch="go test ./$DIR/ -> $DEMO_WITHOUT"),
  needs_to_manifest="see AGENT_NOTES.md", caught_by=None), open("$OUT/meta.json","w"), indent=1)
print("$ID-$M", "CONFIRMED" if ok else "NOT-CONFIRMED", "$BUILD $SUITE $DEMO_WITH $DEMO_WITHOUT")
PY
rm -f $OUT/suite.*.txt
cd /; git -C /repo worktree remove --force $W
