#!/bin/bash
# runs every kept seeded change (and the reverse-fix mutants) against the quick check of its property;
# writes /verif/$R and updates each meta.json (caught_by)
cd /verif
# with VERIF_SEED set the results go to seeded/RESULTS.seed<k>.txt and meta.json is left alone (robustness sweeps)
R=seeded/RESULTS${VERIF_SEED:+.seed$VERIF_SEED}.txt
export R
# SELFTEST_ONLY="C02 C07": only the changes (and reverse-fix mutants) of these properties are re-run; their lines
# replace the old ones in the results file, everything else is kept
if [ -n "$SELFTEST_ONLY" ]; then
  pat=$(echo $SELFTEST_ONLY | tr ' ' '|')
  grep -vE "^SELFTEST ($pat) " $R > $R.keep 2>/dev/null; mv $R.keep $R
else
  : > $R
fi
only() { [ -z "$SELFTEST_ONLY" ] || echo " $SELFTEST_ONLY " | grep -q " $1 "; }
for d in seeded/C*/; do
  id=$(basename $d); prop=${id%%-*}
  only $prop || continue
  pf=/verif/$d/patch.diff
  [ -f /verif/$d/patch_current.diff ] && pf=/verif/$d/patch_current.diff   # ported onto the fix commits when the original no longer applies
  line=$(./drv/selftest.sh $pf $prop | head -1)
  grep -q 'neutralised_by\|outside_quantified_space' $d/meta.json || echo "$line" >> $R
  python3 - "$d" "$line" <<'PY'
import json,sys,os
d,line=sys.argv[1],sys.argv[2]
m=json.load(open(d+'/meta.json'))
caught=' CAUGHT ' in line
if m.get('neutralised_by') or m.get('outside_quantified_space'):
    if not caught:
        why=('change neutralised by fix %s'%m['neutralised_by']['commit']) if m.get('neutralised_by') else "needs a fault the property does not quantify over"
        line=line.replace('MISSED','SILENT-AS-EXPECTED (%s, see meta.json)'%why)
    open(os.environ['R'],'a').write(line+'\n')
sig=line.split(' CAUGHT ',1)[1].strip() if caught else ''
m['caught_by']=dict(check=f"./run.sh {m['property']} quick", caught=caught, signatures=sig[:600], note='' if caught else line[:300])
if not os.environ.get('VERIF_SEED'):
    m2=json.load(open(d+'/meta.json')); m2['caught_by']=m['caught_by']; json.dump(m2,open(d+'/meta.json','w'),indent=1)
PY
done
for p in mutants/*.diff; do
  prop=$(basename $p | sed -E 's/^unfix-[A-Z0-9]+-(C[0-9]+).*/\1/')
  only $prop || continue
  line=$(./drv/selftest.sh /verif/$p $prop | head -1)
  echo "$line" >> $R
done
grep -c CAUGHT $R; grep -v 'CAUGHT\|SILENT-AS-EXPECTED' $R
