#!/usr/bin/env python3
"""Regenerates /verif/MANIFEST.json from drv/checks.py + drv/manifest_meta.py (kept valid at all times)."""
import json, os, sys
VERIF = os.path.dirname(os.path.dirname(os.path.abspath(__file__)))
sys.path.insert(0, os.path.join(VERIF, "drv"))
from checks import CHECKS
from manifest_meta import META, NOT_APPLICABLE, HOOK_COMMITS

props = [json.loads(l) for l in open(os.path.join(VERIF, "properties.jsonl"))]
checks = []
na = []
for p in props:
    pid = p["id"]
    if pid in CHECKS and pid in META:
        m = META[pid]
        checks.append(dict(
            property_id=pid,
            quick_cmd=f"./run.sh {pid} quick",
            thorough_cmd=f"./run.sh {pid} thorough",
            evidence_file=f"/verif/evidence/{pid}.json",
            replay_cmd_template="./run.sh --replay {path}",
            engine="harness/chk",
            level_claimed=dict(category=CHECKS[pid]["level"], text=m["text"], design_ref=m["design_ref"]),
            level_note=m["note"],
            technique=m["technique"],
        ))
    else:
        na.append(dict(property_id=pid, reason=NOT_APPLICABLE.get(pid, "check not built yet in this session; the design (DESIGN.md section 2) applies runtime monitoring to it")))
man = dict(
    version=1,
    setup_cmd="./run.sh --build",
    hooks=dict(
        guard="verif",
        enable="go1.26.8 test -c -race -tags verif ./chk  (harness module replaces go-data-transfer/v2 => /repo; hook files are //go:build verif, new files only)",
        baseline_off_cmd="cd /repo && GOFLAGS=-mod=mod GOPROXY=off go test -json -vet=off -count=1 -timeout 25m ./...",
        source_commits=HOOK_COMMITS,
        add_only=True,
    ),
    engines=[dict(name="harness/chk", path="/verif/harness/chk", serves_properties=[c["property_id"] for c in checks],
                  kind_free_text="Go test binary (race detector on, testing/synctest bubbles) with recording doubles at every library boundary; "
                                 "driven by drv/verifdrv.py (sharding, crash attribution, race-log parsing, known findings, evidence)")],
    checks=checks,
    notes="All checks are runtime monitors over executions of the real code (see DESIGN.md). Exit 2 = inconclusive (never on the unchanged tree). 15 genuine defects were found and repaired in /repo (fix: commits; known_findings.json lists them as fixed, nothing is suppressed). 128 seeded changes written by sub-agents are under seeded/, with the results of running the checks against them in seeded/RESULTS.txt.",
    not_applicable=na,
)
json.dump(man, open(os.path.join(VERIF, "MANIFEST.json"), "w"), indent=1)
print(f"MANIFEST.json: {len(checks)} checks, {len(na)} not_applicable")
