#!/bin/bash
# development helper: apply one change to /repo, run ONE test function in one process (dev.sh), undo the change.
# usage: devseed.sh <patch.diff> <TestName> [N]
P=$(realpath $1); T=$2; N=${3:-24}
cd /repo || exit 2
if [ -n "$(git status --porcelain --untracked-files=no)" ]; then echo "/repo has uncommitted changes, refusing"; exit 2; fi
git apply $P || { echo "patch does not apply"; exit 3; }
cd /verif && ./drv/dev.sh $T $N
git -C /repo checkout -- .
