#!/usr/bin/env python3
"""Driver for the runtime-monitoring checks of go-data-transfer (see /verif/DESIGN.md §0.4).

usage: verifdrv.py <Cxx> <quick|thorough>      run the check of one property
       verifdrv.py --replay <file>             re-execute the case recorded in a replay file
       verifdrv.py --build                     (setup) build the harness test binary

Exit codes: 0 property held on everything explored (possibly with KNOWN-FINDING lines),
            1 a VIOLATION line was printed, 2 inconclusive / harness error.
"""
import hashlib
import json
import os
import shutil
import re
import subprocess
import sys
import time

VERIF = os.path.dirname(os.path.dirname(os.path.abspath(__file__)))
HARNESS = os.path.join(VERIF, "harness")
BUILD = os.path.join(VERIF, ".build")
sys.path.insert(0, os.path.join(VERIF, "drv"))
from checks import CHECKS  # noqa: E402

GOENV = dict(os.environ, GOFLAGS="-mod=mod", GOPROXY="off", GOSUMDB="off", GOTOOLCHAIN="local",
             GOLOG_LOG_LEVEL="fatal", CGO_ENABLED="1")
GO = "go1.26.8"
# the tree the checks are built from: /repo's working tree. VERIF_REPO points a background sweep
# (vp run --with-repo) at its own snapshot instead, so that it is not disturbed by edits to /repo.
REPO = os.path.abspath(os.environ.get("VERIF_REPO", "/repo"))
NCPU = os.cpu_count() or 4


def log(*a):
    print(*a, file=sys.stderr, flush=True)


def build(race=True):
    """Rebuild the test binary from /repo's working tree (replace directive), hooks on when they compile."""
    os.makedirs(BUILD, exist_ok=True)
    out = os.path.join(BUILD, "chk.race.test" if race else "chk.norace.test")
    base = [GO, "test", "-c", "-o", out]
    if REPO != "/repo":
        alt = os.path.join(BUILD, "alt.mod")
        mod = open(os.path.join(HARNESS, "go.mod")).read().replace("=> /repo", "=> " + REPO)
        open(alt, "w").write(mod)
        shutil.copy(os.path.join(HARNESS, "go.sum"), os.path.join(BUILD, "alt.sum"))
        base.append("-modfile=" + alt)
        log(f"[build] using repository tree {REPO}")
    if race:
        base.append("-race")
    t0 = time.time()
    for tags in (["-tags", "verif"], []):
        p = subprocess.run(base + tags + ["./chk"], cwd=HARNESS, env=GOENV, capture_output=True, text=True)
        if p.returncode == 0:
            log(f"[build] {'race' if race else 'norace'} tags={tags[-1] if tags else '-'} ok in {time.time()-t0:.1f}s")
            return out, bool(tags)
        err = p.stderr
        log(f"[build] failed with tags={tags}: {err[-1500:]}")
        # only fall back to an untagged build when the failure is in a verif-tagged hook file
        if tags and "verif_hooks" not in err and "hooks_verif" not in err:
            break
    return None, False


def parse_jsonl(path):
    recs = []
    if not os.path.exists(path):
        return recs
    with open(path, errors="replace") as f:
        for ln in f:
            ln = ln.strip()
            if not ln.startswith("{"):
                continue
            try:
                recs.append(json.loads(ln))
            except Exception:
                pass
    return recs


LIB = "github.com/filecoin-project/go-data-transfer/v2"


def top_lib_frame(text):
    for ln in text.splitlines():
        ln = ln.strip()
        if ln.startswith(LIB) and "/testutil" not in ln:
            ln = re.sub(r"\(.*$", "", ln)
            return ln[len(LIB):]
    return "?"


def classify_crash(stderr_text):
    """Return (kind, sig, excerpt). kind in hang|panic|inconclusive."""
    if "VERIF-WATCHDOG" in stderr_text and "synctest bubble" in stderr_text and "graphsync.waitForCompleteHook" in stderr_text:
        # artefact of the virtual clock, not a hang: dtChannel.open holds the channel lock while it waits up to
        # maxGSCancelWait on a timer; another goroutine waiting for that lock is not "durably" blocked, so the
        # bubble never becomes idle and the virtual timer can never fire. On a real clock this resolves after 1 s
        # (the same overlap is exercised on the real clock by the C20 workloads). Retried like a runtime crash.
        return "toolchain", "virtual-clock-artifact lock held across waitForCompleteHook timer", ""
    if "VERIF-WATCHDOG" in stderr_text:
        # goroutine dump follows; find library goroutines and what they are parked on
        blocks = stderr_text.split("\n\n")
        roots = []
        mutex_waiters = 0
        for b in blocks:
            m = re.match(r"goroutine \d+ \[([^\]]+)\]", b.strip())
            if not m:
                continue
            state = m.group(1)
            if LIB not in b:
                continue
            fr = top_lib_frame(b)
            st = state.split(",")[0]
            if "Mutex" in st or "semacquire" in st:
                mutex_waiters += 1
            if st in ("running", "runnable"):
                continue
            roots.append(f"{fr}@{st}")
        roots = sorted(set(roots))
        if mutex_waiters == 0:
            return "inconclusive", "watchdog-without-mutex-waiters", stderr_text[:3000]
        sig = "hang " + " | ".join(r for r in roots if ("Mutex" in r or "semacquire" in r or "chan" in r or "select" in r))[:400]
        return "hang", sig, "\n\n".join(b for b in blocks if LIB in b)[:6000]
    if "SIGSEGV" in stderr_text[:200] or re.search(r"^(SIGSEGV|SIGBUS|fatal error: unexpected signal)", stderr_text, re.M):
        # a crash of the Go runtime itself (seen: runtime.(*timer).maybeRunChan inside selectgo of a synctest
        # bubble, go1.26.8): when the crashing goroutine has no library frame this says nothing about the library
        head = stderr_text.split("\n\ngoroutine 1 ")[0]
        if LIB not in head:
            return "toolchain", "go-runtime-crash " + (re.search(r"^runtime\.[^\n(]+", head, re.M).group(0) if re.search(r"^runtime\.[^\n(]+", head, re.M) else "?"), head[:1500]
    if "ThreadSanitizer: CHECK failed" in stderr_text:
        # an internal assertion of the race detector's runtime, not a report about the program
        return "toolchain", "race-detector-runtime-check-failed", stderr_text[:1500]
    m = re.search(r"^(panic: .*|fatal error: .*)$", stderr_text, re.M)
    if m:
        msg = m.group(1)
        tail = stderr_text[m.start():]
        fr = top_lib_frame(tail)
        short = re.sub(r"0x[0-9a-f]+", "0x", msg)[:120]
        short = re.sub(r"\d{3,}", "N", short)
        return "panic", f"crash {fr} {short}", tail[:5000]
    return "inconclusive", "worker-died-without-panic", stderr_text[-3000:]


def parse_race_logs(prefix):
    """Collect race reports written by GORACE log_path=prefix.* ; returns list of report texts."""
    reports = []
    d = os.path.dirname(prefix)
    b = os.path.basename(prefix)
    for fn in sorted(os.listdir(d)):
        if not fn.startswith(b + "."):
            continue
        txt = open(os.path.join(d, fn), errors="replace").read()
        for blk in txt.split("==================")[0:]:
            if "WARNING: DATA RACE" in blk:
                reports.append(blk.strip())
    return reports


def race_signature(rep):
    """De-duplicate by the pair of top frames (line numbers stripped) and classify scope."""
    parts = re.split(r"\n\s*\n", rep)
    tops = []
    inlib = False
    for p in parts[:2]:
        fr = None
        for ln in p.splitlines()[1:]:
            ln = ln.strip()
            if ln and not ln.startswith("/") and "(" in ln:
                fr = re.sub(r"\(.*$", "", ln)
                break
        tops.append(fr or "?")
        # first frame's file
        files = [ln.strip() for ln in p.splitlines() if ln.strip().startswith("/")]
        if files and files[0].startswith(REPO + "/") and "_test.go" not in files[0] and "/testutil/" not in files[0]:
            inlib = True
    lib_any = (REPO + "/" in rep)
    harness_only = all(("verif/harness" in (t or "")) for t in tops)
    scope = "library" if inlib else ("harness" if harness_only else ("via-library" if lib_any else "foreign"))
    return " <-> ".join(sorted(tops)), scope


def run_part(binpath, part, tier, seed, prop, tmpdir):
    test = part["test"]
    n = part[tier]
    if n <= 0:
        return dict(recs=[], crashes=[], races=[], n=0, inconclusive=[], toolchain=[])
    per = part.get("per_shard", 8)
    shards = max(1, min(part.get("max_shards", NCPU), (n + per - 1) // per))
    wd = part.get("watchdog", 90 if tier == "quick" else 180)
    procs = []
    for k in range(shards):
        procs.append(dict(k=k, frm=0, attempt=0))
    recs, crashes, inconclusive, toolchain = [], [], [], []
    race_prefix = os.path.join(tmpdir, f"race.{test}")
    active = []

    def launch(pr):
        out = os.path.join(tmpdir, f"{test}.{pr['k']}.{pr['attempt']}.jsonl")
        err = os.path.join(tmpdir, f"{test}.{pr['k']}.{pr['attempt']}.stderr")
        env = dict(GOENV, VERIF_SEED=str(seed), VERIF_TIER=tier, VERIF_N=str(n), VERIF_SHARD=f"{pr['k']}/{shards}",
                   VERIF_FROM=str(pr["frm"]), VERIF_OUT=out, VERIF_WATCHDOG=str(wd),
                   GORACE=f"halt_on_error=0 log_path={race_prefix}.{pr['k']}.{pr['attempt']}",
                   GOMEMLIMIT=part.get("memlimit", "6GiB"))
        env.pop("VERIF_ONLY", None)
        env["GOMAXPROCS"] = str(part.get("gomaxprocs", 4 if shards > 4 else 8))
        ef = open(err, "w")
        p = subprocess.Popen([binpath, "-test.run", f"^{test}$", "-test.timeout", "0", "-test.count", "1"],
                             cwd=tmpdir, env=env, stdout=ef, stderr=ef)
        pr.update(proc=p, out=out, err=err, ef=ef, t0=time.time())
        active.append(pr)

    for pr in procs:
        launch(pr)
    limit = part.get("shard_timeout", 900 if tier == "quick" else 5400)
    while active:
        time.sleep(0.05)
        for pr in list(active):
            rc = pr["proc"].poll()
            if rc is None:
                if time.time() - pr["t0"] > limit:
                    pr["proc"].kill()
                    pr["proc"].wait()
                    inconclusive.append(f"{test} shard {pr['k']}: real-time limit {limit}s exceeded")
                    active.remove(pr)
                    pr["ef"].close()
                    recs += parse_jsonl(pr["out"])
                continue
            active.remove(pr)
            pr["ef"].close()
            rs = parse_jsonl(pr["out"])
            recs += rs
            begun = [r for r in rs if r["kind"] == "begin"]
            ended = {r["index"] for r in rs if r["kind"] == "end"}
            open_cases = [r for r in begun if r["index"] not in ended]
            if open_cases:
                oc = open_cases[-1]
                stderr_text = open(pr["err"], errors="replace").read()
                kind, sig, excerpt = classify_crash(stderr_text)
                if kind == "inconclusive" and not stderr_text.strip():
                    # the process went away without a word (killed from outside, e.g. by the kernel's out-of-memory
                    # killer on a loaded machine; a Go program that dies on its own always says why): says nothing
                    # about the case; retried like a runtime crash, reported in the evidence with its exit status
                    kind, sig = "toolchain", f"worker-vanished-silently rc={rc}"
                if kind == "toolchain":
                    # retry the same case (twice); a case that keeps crashing the runtime is skipped and reported
                    retries = pr.get("retries", {})
                    n_retry = retries.get(oc["index"], 0)
                    toolchain.append(dict(test=test, index=oc["index"], sig=sig, retry=n_retry))
                    retries[oc["index"]] = n_retry + 1
                    nxt = oc["index"] if n_retry < 2 else oc["index"] + 1
                    pr2 = dict(k=pr["k"], frm=nxt, attempt=pr["attempt"] + 1, retries=retries)
                    launch(pr2)
                    continue
                crashes.append(dict(test=test, index=oc["index"], kind=kind, sig=sig, excerpt=excerpt, rc=rc))
                if pr["attempt"] < 200:
                    pr2 = dict(k=pr["k"], frm=oc["index"] + 1, attempt=pr["attempt"] + 1, retries=pr.get("retries", {}))
                    launch(pr2)
            elif rc != 0:
                stderr_text = open(pr["err"], errors="replace").read()
                # a failure outside any case (e.g. synctest complaining after the last case)
                only_race = "race detected during execution of test" in stderr_text and "panic" not in stderr_text
                if only_race:
                    pass  # race reports are collected from the GORACE log files and judged separately
                elif "FAIL" in stderr_text or "panic" in stderr_text:
                    inconclusive.append(f"{test} shard {pr['k']}: exit {rc} outside a case: {stderr_text[-800:]}")
    races = parse_race_logs(race_prefix)
    return dict(recs=recs, crashes=crashes, races=races, n=n, inconclusive=inconclusive, toolchain=toolchain)


def load_known():
    p = os.path.join(VERIF, "known_findings.json")
    if not os.path.exists(p):
        return []
    return json.load(open(p)).get("findings", [])


def match_known(known, prop, sig):
    for k in known:
        if k.get("kind") != "known" or k.get("property") != prop:
            continue
        pat = k.get("signature", "")
        if pat and (pat == sig or (k.get("match") == "prefix" and sig.startswith(pat)) or (k.get("match") == "regex" and re.search(pat, sig))):
            return k
    return None


def write_replay(prop, test, seed, index, n, tier, sig, detail, extra=None):
    os.makedirs(os.path.join(VERIF, "replays"), exist_ok=True)
    h = hashlib.sha256(f"{prop}|{test}|{seed}|{index}|{sig}".encode()).hexdigest()[:12]
    path = os.path.join(VERIF, "replays", f"{prop}-{h}.json")
    json.dump(dict(property=prop, test=test, seed=seed, index=index, n=n, tier=tier, signature=sig, detail=detail,
                   extra=extra, replay_cmd=f"./run.sh --replay {path}"), open(path, "w"), indent=1, default=str)
    return path


def run_check(prop, tier):
    t0 = time.time()
    spec = CHECKS.get(prop)
    if spec is None:
        print(f"property {prop} has no check (see MANIFEST not_applicable)")
        return 2
    seed = int(os.environ.get("VERIF_SEED", "1") or 1)
    need_race = any(not p.get("norace") for p in spec["parts"])
    need_norace = any(p.get("norace") for p in spec["parts"])
    bins = {}
    hooks = False
    if need_race:
        b, hooks = build(True)
        if not b:
            print(f"INCONCLUSIVE property={prop} harness or /repo does not build")
            return 2
        bins[False] = b
    if need_norace:
        b, hooks2 = build(False)
        if not b:
            print(f"INCONCLUSIVE property={prop} harness or /repo does not build")
            return 2
        bins[True] = b
        hooks = hooks or hooks2
    tmpdir = os.path.join(BUILD, "run", f"{prop}.{tier}.{os.getpid()}")
    os.makedirs(tmpdir, exist_ok=True)
    known = load_known()
    evaluations = 0
    fps = set()
    counters = {}
    samples = []
    violations = []   # (sig, detail, test, index, extra)
    inconclusive = []
    races_raw = 0
    race_sigs = {}
    per_part = {}
    toolchain_all = []
    leaks = []
    for part in spec["parts"]:
        res = run_part(bins[bool(part.get("norace"))], part, tier, seed, prop, tmpdir)
        ends = [r for r in res["recs"] if r["kind"] == "end"]
        ends = list({r["index"]: r for r in ends}.values())  # a retried case is counted once
        evaluations += len(ends)
        per_part[part["test"]] = dict(cases=len(ends), planned=res["n"])
        inconclusive += res["inconclusive"]
        skipped = len({t["index"] for t in res["toolchain"] if t["retry"] >= 2})
        toolchain_all += res["toolchain"]
        if len(ends) + len(res["crashes"]) + skipped < res["n"] and not res["inconclusive"]:
            inconclusive.append(f"{part['test']}: only {len(ends)} of {res['n']} cases reported")
        for r in ends:
            if r.get("nontrivial"):
                fps.add(part["test"] + ":" + r.get("fp", ""))
            for k, v in (r.get("counters") or {}).items():
                counters[part["test"] + "." + k] = counters.get(part["test"] + "." + k, 0) + v
            if r.get("sample") is not None and len([s for s in samples if s["test"] == part["test"]]) < 2:
                samples.append(dict(test=part["test"], index=r["index"], case=r["sample"]))
            for v in r.get("viols") or []:
                if v["property"] == prop:
                    violations.append((v["sig"], v["detail"], part["test"], r["index"], dict(params=r.get("params"), notes=r.get("notes"))))
            if r.get("inconclusive"):
                inconclusive.append(f"{part['test']}[{r['index']}]: " + "; ".join(n for n in (r.get("notes") or []) if n.startswith("INCONCLUSIVE"))[:600])
            if r.get("panic"):
                fr = top_lib_frame(r.get("stack", ""))
                msg = re.sub(r"0x[0-9a-f]+", "0x", r["panic"])[:120]
                if r["panic"].startswith("synctest:"):
                    # the bubble ended with goroutines still parked: triage from the dump of what is left
                    left = r.get("stack", "")
                    lib_blocks = [b for b in left.split("\n\n") if LIB in b and "/testutil" not in b]
                    on_lock = [b for b in lib_blocks if re.match(r"goroutine \d+ \[(sync\.(RW)?Mutex|semacquire)", b.strip())]
                    if "all goroutines in bubble are blocked" in r["panic"]:
                        # the case itself is stuck: a call into the library never returned although the whole
                        # bubble is idle (no timer pending) - a hang, whatever property is being checked
                        stuck = [b for b in lib_blocks if "verif/harness/chk" in b] or lib_blocks
                        if stuck:
                            violations.append(("call-never-returned " + top_lib_frame(stuck[0]), stuck[0][:3000], part["test"], r["index"], None))
                        else:
                            inconclusive.append(f"{part['test']}[{r['index']}]: bubble deadlocked outside library code: {left[:600]}")
                    elif on_lock and prop == "C20":
                        violations.append(("goroutine-left-on-library-lock " + top_lib_frame(on_lock[0]), on_lock[0][:3000], part["test"], r["index"], None))
                    elif lib_blocks:
                        # parked on a channel/timer inside library code (e.g. a per-channel monitor that outlives
                        # Manager.Stop): a leak, reported in the evidence, never a verdict
                        leaks.append(dict(test=part["test"], index=r["index"], where=top_lib_frame(lib_blocks[0])))
                    else:
                        leaks.append(dict(test=part["test"], index=r["index"], where="foreign (dependency goroutine)"))
                elif fr == "?":
                    inconclusive.append(f"{part['test']}[{r['index']}]: harness panic: {msg} :: {r.get('stack','')[:1500]}")
                else:
                    violations.append((f"panic {fr} {msg}", r.get("stack", "")[:3000], part["test"], r["index"], dict(params=r.get("params"))))
        for cr in res["crashes"]:
            if cr["kind"] == "inconclusive":
                inconclusive.append(f"{cr['test']}[{cr['index']}]: {cr['sig']}: {cr['excerpt'][-600:]}")
            else:
                violations.append((cr["sig"], cr["excerpt"], cr["test"], cr["index"], None))
        races_raw += len(res["races"])
        for rep in res["races"]:
            sig, scope = race_signature(rep)
            e = race_sigs.setdefault(sig, dict(scope=scope, count=0, report=rep[:4000], test=part["test"]))
            e["count"] += 1
    # races decide C20 only; elsewhere they are listed in the evidence
    if spec.get("races_decide"):
        for sig, e in race_sigs.items():
            if e["scope"] in ("library", "via-library"):
                violations.append(("race " + sig, e["report"], e["test"], -1, None))
            elif e["scope"] == "harness":
                inconclusive.append("data race inside harness code: " + sig)
    # floors
    for key, minimum in (spec.get("floors") or {}).get(tier, (spec.get("floors") or {}).get("any", {})).items():
        if counters.get(key, 0) < minimum:
            inconclusive.append(f"coverage floor missed: {key}={counters.get(key,0)} < {minimum}")
    # known findings / verdict
    seen_known = {}
    new = {}
    for sig, detail, test, index, extra in violations:
        k = match_known(known, prop, sig)
        if k:
            seen_known.setdefault(k["signature"], (k, 0))
            seen_known[k["signature"]] = (k, seen_known[k["signature"]][1] + 1)
        else:
            new.setdefault(sig, []).append((detail, test, index, extra))
    for sig, (k, cnt) in seen_known.items():
        print(f"KNOWN-FINDING: property={prop} {k['what']} (observed {cnt}x; signature: {sig})")
    rc = 0
    nviol = 0
    for sig, items in new.items():
        detail, test, index, extra = items[0]
        path = write_replay(prop, test, seed, index, next(p[tier] for p in spec["parts"] if p["test"] == test), tier, sig, detail, extra)
        print(f"VIOLATION property={prop} replay={path}")
        print(f"  signature: {sig}")
        print(f"  first of {len(items)}: {test}[{index}]: {detail[:600]}")
        nviol += 1
        rc = 1
    nt = len(fps)
    if rc == 0 and inconclusive:
        for m in inconclusive[:10]:
            print(f"INCONCLUSIVE property={prop} {m[:1500]}")
        rc = 2
    wall = time.time() - t0
    ev = dict(
        property_id=prop, tier=tier, seed=seed, level=spec["level"],
        coverage=dict(
            evaluations=evaluations, distinct_nontrivial=nt,
            rule=spec["rule"], samples=samples[:6],
            per_test=per_part, counters=counters,
            hooks_enabled=hooks,
            race_reports_raw=races_raw,
            race_reports_dedup=[dict(sig=s, scope=e["scope"], count=e["count"]) for s, e in race_sigs.items()],
            known_findings_observed=[dict(signature=s, count=c) for s, (k, c) in seen_known.items()],
            inconclusive=inconclusive[:20],
            goroutines_left_at_bubble_exit=leaks[:20],
            go_runtime_crashes=[dict(test=t["test"], index=t["index"], sig=t["sig"], retry=t["retry"]) for t in toolchain_all][:20],
            exhaustive=False,
        ),
        assumptions=spec.get("assumptions", []),
        wall_s=round(wall, 2), violations=nviol,
    )
    os.makedirs(os.path.join(VERIF, "evidence"), exist_ok=True)
    json.dump(ev, open(os.path.join(VERIF, "evidence", f"{prop}.json"), "w"), indent=1, default=str)
    print(f"[{prop} {tier}] evaluations={evaluations} distinct_nontrivial={nt} violations={nviol} known={len(seen_known)} "
          f"races raw/dedup={races_raw}/{len(race_sigs)} hooks={'on' if hooks else 'OFF'} wall={wall:.1f}s exit={rc}")
    keys = [k for k in sorted(counters) if ".ev." not in k and ".ctor." not in k][:24]
    if keys:
        print("  observed: " + ", ".join(f"{k.replace('Test','',1)}={counters[k]}" for k in keys))
    # remove scratch output unless something needs a look
    if rc == 0 and not os.environ.get("VERIF_KEEP"):
        subprocess.run(["rm", "-rf", tmpdir])
    return rc


def replay(path):
    r = json.load(open(path))
    prop, test = r["property"], r["test"]
    spec = CHECKS[prop]
    part = next(p for p in spec["parts"] if p["test"] == test)
    b, _ = build(not part.get("norace"))
    if not b:
        return 2
    attempts = 1 if r["index"] < 0 else 50
    hit = 0
    for a in range(attempts):
        out = os.path.join(BUILD, f"replay.{os.getpid()}.jsonl")
        if os.path.exists(out):
            os.remove(out)
        env = dict(GOENV, VERIF_SEED=str(r["seed"]), VERIF_TIER=r["tier"], VERIF_N=str(r["n"]), VERIF_ONLY=str(r["index"]),
                   VERIF_OUT=out, VERIF_WATCHDOG="60")
        p = subprocess.run([b, "-test.run", f"^{test}$", "-test.timeout", "0"], cwd=BUILD, env=env, capture_output=True, text=True)
        recs = [x for x in parse_jsonl(out) if x["kind"] == "end"]
        sigs = [v["sig"] for x in recs for v in (x.get("viols") or []) if v["property"] == prop]
        crashed = not recs
        if r["signature"] in sigs or (crashed and classify_crash(p.stderr + p.stdout)[1] == r["signature"]):
            hit += 1
            if hit == 1:
                print(f"reproduced on attempt {a+1}: {r['signature']}")
                for x in recs:
                    print(json.dumps(x, indent=1)[:4000])
                if crashed:
                    print((p.stderr + p.stdout)[-3000:])
        if hit and a >= 4:
            break
    print(f"replay: {hit} of {a+1} attempts reproduced signature {r['signature']!r}")
    return 1 if hit else 0


def main():
    if len(sys.argv) >= 2 and sys.argv[1] == "--build":
        ok = build(True)[0] is not None
        if any(p.get("norace") for s in CHECKS.values() for p in s["parts"]):
            ok = ok and build(False)[0] is not None
        return 0 if ok else 2
    if len(sys.argv) >= 3 and sys.argv[1] == "--replay":
        return replay(sys.argv[2])
    if len(sys.argv) < 3:
        print(__doc__)
        return 2
    return run_check(sys.argv[1], sys.argv[2])


if __name__ == "__main__":
    sys.exit(main())
