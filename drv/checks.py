"""Table of checks: property -> level, parts (Go test functions with case counts per tier), floors.

A part: test (Go test func in harness/chk), quick / thorough (number of generated cases),
per_shard (cases per worker process, decides the number of shards), optional watchdog seconds,
norace (build without the race detector, C12 hostile-bytes volume only).
Floors: counters (as "<Test>.<counter>") that must reach a minimum, else the run is inconclusive.
"""

CHECKS = {}

CHECKS["C07"] = dict(
    level="exploration",
    rule=("case = (seed,index)-determined PRNG workload. C07Seq: a channel of a random role in a transferring status gets "
          "traversal-shaped block reports in three directions (sizes unique per position), verbatim replays of earlier ranges and "
          "reopen points (new Channels on the same datastore); after every report totals/indexes must equal a running-sum model "
          "and never decrease. C07Conc: 2-8 concurrent reporters with overlapping ranges, conservation/at-most-once/order oracles over "
          "the subscriber snapshot stream. Non-trivial = >3 reports with a non-zero total (Seq) / >4 concurrent reports (Conc); "
          "distinct = distinct fingerprint of (role, reopen/replay use, which totals non-zero, size classes) resp. the observed "
          "return order of the concurrent reports."),
    parts=[
        dict(test="TestC07Seq", quick=160, thorough=12000, per_shard=30),
        dict(test="TestC07Conc", quick=128, thorough=8000, per_shard=20),
        dict(test="TestC16Route", quick=80, thorough=2000, per_shard=20),
    ],
    floors=dict(any={"TestC07Seq.reopens": 10, "TestC07Seq.replays": 20, "TestC07Conc.reports": 500, "TestC16Route.offwire_blocks": 30}),
    assumptions=["datastore Put is atomic", "block reports are traversal-shaped in the sequential phase (DESIGN C07)"],

)

CHECKS["C12"] = dict(
    level="exploration",
    rule=("C12RoundTrip: each case builds 24 messages through the library's 12 constructors with PRNG arguments (edge and random 64-bit ids, "
          "all flags, CIDv0/v1, arbitrary nested IPLD vouchers/selectors incl. non-UTF-8, big ints, floats, links, random map key order) and checks: "
          "observables equal after ToNet/FromNet, ToIPLD/FromIPLD and the graphsync-extension form; wire bytes equal the bytes an independent encoder "
          "derives from the published schema; a key-permuted encoding decodes to the same message; exactly one kind; Accepted() rule. "
          "C12Hostile: each case feeds 400 hostile inputs (structure-aware mutations, truncation, trailing bytes, bit flips, huge/indefinite lengths, random "
          "bytes) to FromNet / FromIPLD / GetTransferData: no panic, and a message returned without error must answer every accessor. "
          "Non-trivial: every case; distinct = distinct set of (constructor, kind, id size class, voucher present) resp. distinct batch."),
    parts=[
        dict(test="TestC12RoundTrip", quick=250, thorough=12500, per_shard=16),
        dict(test="TestC12Hostile", quick=150, thorough=7500, per_shard=10),
    ],
    floors=dict(any={"TestC12Hostile.accepted": 100, "TestC12Hostile.rejected": 1000, "TestC12RoundTrip.ctor.NewRequest": 100, "TestC12RoundTrip.failed_writes_before_encode": 300}),
    assumptions=["the independent encoder (internal/cborx, 150 lines) implements DAG-CBOR canonical form correctly"],

)

CHECKS["C06"] = dict(
    level="fault_enumeration",
    rule=("case = PRNG history of 10-80 channel events (all 28 event-sending methods, arbitrary IPLD vouchers, long messages) over 1-4 channels of "
          "random roles on a recording datastore. Reference = the snapshot stream of the real run. Then EVERY prefix of that run's write log (each "
          "Put/Delete boundary = crash point, enumerated exhaustively per history) is materialised in a fresh datastore, the library is reopened on it and "
          "every accessor (incl. stage logs and voucher logs as canonical DAG-CBOR) is compared: state equals some reference state, the matched index never "
          "goes backwards, final = last, channels present iff created, GetByID == listing; channels persisted in a cleanup status must terminate with exactly "
          "one cleanup after restart; states returned by queries must already be in the write log. Non-trivial = history with > 4 writes; distinct = set "
          "of statuses reached + number of channels."),
    parts=[dict(test="TestC06Crash", quick=48, thorough=1600, per_shard=3),
           dict(test="TestC06Mgr", quick=24, thorough=480, per_shard=3)],  # manager level: RestartDataTransferChannel at every crash point
    floors=dict(any={"TestC06Crash.crash_points": 500, "TestC06Crash.boundary_length_errors": 16, "TestC06Crash.cleanup_resumed": 5, "TestC06Crash.queries": 50, "TestC06Crash.stalled_write_queries": 50,
                     "TestC06Mgr.crash_points": 150, "TestC06Mgr.cleanup_resumed": 20}),
    assumptions=["a single datastore Put is atomic (torn writes inside one Put are out of scope)"],
)

CHECKS["C13"] = dict(
    level="exploration",
    rule=("case = datastore seeded with 1-40 version-2 channel records hand-encoded by the independent encoder (every one of the 19 status values, "
          "totals up to 2^64-1, 1-5 vouchers and 0-5 results of arbitrary IPLD, 0-6 stages with 0-10 logs or nil stages, both roles/directions); 1 in 8 stores "
          "has an undecodable record. Checks: operations refused (and no write) before Start and while migration writes are in progress; every accessor of every "
          "migrated channel equals the v2 record (paused statuses -> Ongoing + flags); further events are accepted and persist; 1-2 more starts leave every byte "
          "unchanged; manager: OnReady listeners registered before Start are called exactly once with the migration outcome. Non-trivial: every case; distinct = "
          "status multiset x size class x corrupt."),
    parts=[dict(test="TestC13Migrate", quick=96, thorough=4000, per_shard=6)],
    floors=dict(any={"TestC13Migrate.records": 500, "TestC13Migrate.raw_records_compared": 500, "TestC13Migrate.corrupt_stores": 3, "TestC13Migrate.during_attempts": 100, "TestC13Migrate.followups": 50}),
    assumptions=["internal/cborx encodes the version-2 record layout (field names of ChannelStateV2, tuple-encoded stages) correctly"],
)

CHECKS["C03"] = dict(
    level="exploration",
    rule=("C03Init: role-consistent initiator histories (8 variants by index: both completion signals in both orders, with/without a preceding paused Complete, late "
          "acceptance, duplicated signals, a single signal only or a longer ONE-SIDED history that repeats/interleaves one side's signal with paused Completes (12 shapes, must not complete), never-accepted local finish) with PRNG bookkeeping noise between all steps; trace predicates over "
          "the snapshot stream: P1 Completing only after both signals, P2 both signals => Completed at quiescence, P3 bookkeeping never changes status (except the "
          "named release from Finalizing), P4 lifecycle never changes counters/pause flags/vouchers/limits. C03Resp: responder histories with and without finalization "
          "(stays Finalizing and reports paused under noise until ResumeResponder, then completes). C03Step: single-step product over injected version-3 records: "
          "15 statuses x 4 pause-flag settings x 4 roles x all 28 event-sending operations, P3/P4 on every applied step. distinct = distinct set of observed "
          "(event, status->status) facts."),
    parts=[
        dict(test="TestC03Init", quick=320, thorough=24000, per_shard=40),
        dict(test="TestC03Resp", quick=96, thorough=6000, per_shard=24),
        dict(test="TestC03Step", quick=112, thorough=1120, per_shard=8),
        dict(test="TestC03Mgr", quick=96, thorough=4800, per_shard=12),
    ],
    floors=dict(any={"TestC03Init.both_signals_cases": 100, "TestC03Init.never_accepted_cases": 10, "TestC03Init.one_sided_histories": 8, "TestC03Resp.finalizing_cases": 20,
                     "TestC03Resp.release_from_finalizing": 20, "TestC03Step.steps_applied": 4000, "TestC03Mgr.holding_updates": 80, "TestC03Mgr.manager_releases": 60, "TestC03Mgr.completion_reported_again_while_finalizing": 20}),
    assumptions=["event classes (lifecycle/bookkeeping/ending) are read off the property statement, see chk/hist_test.go eventClass"],
)

CHECKS["C02"] = dict(
    level="exploration",
    rule=("case index enumerates role (4) x terminal status (3) x {same process, manager/channels reopened on the same datastore} x route variant. C02Chan: "
          "channels API; all 28 event-sending operations (thorough: sequences of 1-3) applied in PRNG order to the terminated channel. C02Mgr: real manager over "
          "recording doubles; ~45-60 stimuli per case in PRNG order: every message kind the counterparty can send (over the network receiver and over the transport "
          "callback path, accepted/rejected x paused/unpaused), restart and duplicate new requests, every transport callback, every manager API call. After each stimulus: "
          "all accessors (incl. stage log) equal, stored bytes equal, no subscriber event for the channel, no transport open, no restart/new request or accepted reply on "
          "the network, Restart/Close return nil, no panic. distinct = (role, terminal, reopened, route variant)."),
    parts=[
        dict(test="TestC02Chan", quick=48, thorough=2400, per_shard=6),
        dict(test="TestC02Mgr", quick=48, thorough=2400, per_shard=6),
    ],
    floors=dict(any={"TestC02Chan.stimuli": 1000, "TestC02Mgr.stimuli": 1500, "TestC02Mgr.sparse_restart_delivered": 60, "TestC02Mgr.stopped_at_terminal_announcement": 8}),
    assumptions=["pause/resume/close calls reaching the transport double for a terminated channel are not counted (the property speaks of channel fields, events and restart traffic)"],
)

CHECKS["C14"] = dict(
    level="exploration",
    rule=("case = PRNG monitor configuration (accept/complete timeouts 0/20s/40s resp. 0/30s, debounce, backoff, max restarts 1-4; every 12th case: monitoring disabled; "
          "every 6th: structured 'restart requested during an attempt' scenario; every 3rd, for channels whose reconnect stalls: accepted, one error, then the channel ENDS while that restart attempt is in flight) x 1-4 monitored channels x per-channel connect/restart failure pattern (never, first k, "
          "always, alternate) and stall x PRNG script of timed events (error bursts, data, accept, finish, noise, cleaning-up/terminal snapshots) on the VIRTUAL clock "
          "(event classes live on different millisecond offsets so that nothing coincides with a timer). Oracles on the recording monitor API: no overlapping attempt "
          "intervals; attempts without data progress <= max; <= 1 close; accept/complete deadline closes exactly then unless cancelled; any other close needs an exhausted "
          "budget; persistent failure ends in a close; silence, no subscription and 'forgotten' after a cleanup/terminal snapshot or verdict (a close is ordered against the ending event by its position in the call log, not by the virtual clock: a close provoked by the ending itself happens at the same instant); exactly one extra attempt "
          "for restarts requested during an attempt; disabled => no calls at all. distinct = observed (failure pattern, closes, attempts, ended, deadline kind) facts."),
    parts=[dict(test="TestC14Monitor", quick=600, thorough=50000, per_shard=60),
        dict(test="TestC14Mgr", quick=64, thorough=3200, per_shard=8)],
    floors=dict(any={"TestC14Monitor.queued_cases": 50, "TestC14Monitor.budget_closes": 50, "TestC14Monitor.deadline_cases.accept-timeout": 50,
                     "TestC14Monitor.deadline_cases.complete-timeout": 10, "TestC14Monitor.disabled_cases": 20, "TestC14Monitor.stopped_channels": 200, "TestC14Monitor.ended_during_restart_attempt": 100, "TestC14Mgr.mgr_persistent_failures": 20, "TestC14Mgr.mgr_recovered": 20, "TestC14Mgr.accept_processed_during_open": 6}),
    assumptions=["virtual time (testing/synctest): timer expirations are exact; the monitor API double is the only observation point"],
)

CHECKS["C15"] = dict(
    level="fault_enumeration",
    rule=("C15Send: case index enumerates the stream-open failure pattern f in {0,1}^<=8 (by index), attempts 1..6 (or <1 = one attempt), back-off parameters, and a fault mode "
          "(plain / context cancelled at a PRNG virtual instant / Write fails after n bytes / a stalled NewStream + cancel) over a mocknet of three hosts with a wrapping "
          "host that records every NewStream call on the virtual clock. Oracles: calls <= attempts, exact count up to first success, success iff an allowed attempt opens, "
          "prompt return and no attempt after cancel, reset + error on write failure, exactly one faithful delivery to the intended peer and none to the bystander. "
          "C15Inbound: a raw stream carrying k in 0..4 well-formed messages (any of the 12 kinds, occasionally a 1-3 MiB voucher) followed by EOF / garbage / a non-message "
          "CBOR item / a truncated message: handler calls == k, right handler, authenticated remote peer, faithful content; malformed tails are reported and reset. "
          "distinct = (pattern length, attempts, mode, calls, outcome) resp. (k, tail kind, errors, reset)."),
    parts=[
        dict(test="TestC15Send", quick=320, thorough=15000, per_shard=32, max_shards=10),
        dict(test="TestC15Inbound", quick=96, thorough=6000, per_shard=10),
        dict(test="TestC15Reuse", quick=8, thorough=160, per_shard=2),
    ],
    floors=dict(any={"TestC15Send.successful_sends": 100, "TestC15Send.exhausted_sends": 40, "TestC15Send.cancelled_sends": 20, "TestC15Send.write_failures": 20, "TestC15Send.short_open_timeout_cases": 20, "TestC15Send.second_sends": 250, "TestC15Reuse.failed_sends_followed_by_another": 60,
                     "TestC15Inbound.malformed_streams": 30, "TestC15Inbound.inbound_messages": 120}),
    assumptions=["libp2p mocknet streams stand in for real transports; timing is virtual"],
)

CHECKS["C18"] = dict(
    level="exploration",
    rule=("C18Concurrent: 2-64 goroutines x 1-6 OpenPush/OpenPull calls each on one real manager; recorded (call, return, id) history must have unique ids, strictly "
          "increasing per caller, and be linearizable against the sequential model 'strictly increasing counter' (decided directly on the full history - the order is forced "
          "by the ids - and by porcupine on a random sub-history of <= 12 operations). C18Lifetimes (real clock, outside a bubble): 2-5 successive managers on one "
          "datastore each issue 1-500 ids; every id must exceed all ids of earlier managers. C18LifetimesVirtual (bubble): the same on the virtual clock, where the only wall clock "
          "that separates two lifetimes is what the harness lets pass - 1 microsecond per id the earlier manager issued plus a PRNG extra - so the verdict does not depend on how "
          "fast this machine restarts a manager. C18Duplicate: a duplicate new request (same initiator and transfer id, validator "
          "accepting) arrives at a PRNG point of the original channel's life (just accepted, transferring, paused, terminated, after reopening the datastore) or n identical "
          "requests arrive concurrently: never accepted (exactly one accepted in the concurrent case), existing channel's accessors, stored bytes and event stream unchanged. "
          "distinct = observed return order of the openers / (point of life, direction, status)."),
    parts=[
        dict(test="TestC18Concurrent", quick=96, thorough=6000, per_shard=12),
        dict(test="TestC18Lifetimes", quick=16, thorough=800, per_shard=4, gomaxprocs=16),
        dict(test="TestC18LifetimesVirtual", quick=32, thorough=2400, per_shard=8),
        dict(test="TestC18Duplicate", quick=96, thorough=6000, per_shard=24),
    ],
    floors=dict(any={"TestC18Concurrent.opens": 3000, "TestC18Lifetimes.lifetimes": 30, "TestC18LifetimesVirtual.virtual_lifetimes": 60, "TestC18Duplicate.duplicates": 60, "TestC18Duplicate.concurrent_duplicates": 10, "TestC18Duplicate.followup_after_duplicate": 10}),
    assumptions=["the wall clock does not go backwards between manager lifetimes (premise stated in the property)",
                 "issuing a transfer id costs at least 1 microsecond of wall clock (virtual-clock variant: that much clock passes between lifetimes)"],
)

CHECKS["C04"] = dict(
    level="exploration",
    rule=("C04New: case index enumerates direction x arrival path (network receiver / transport callback) x request shape (registered type x2, unregistered type, missing voucher, "
          "missing selector) x validator outcome (accept, reject, error, accepted-with-error) and draws VoucherResult (nil, value, typed-but-nil), ForcePause, DataLimit "
          "(0, 1, 4096, 2^62, 2^64-1), RequiresFinalization. Oracle = join of validator call log, datastore write log, transport and network call logs and the manager's view: "
          "no channel/transport/protect/accepted reply unless the validator returned Accepted without error; accepted reply carries exactly the validator's result and pause decision; "
          "limits recorded. C04Restart: existing responder channel x {incoming restart request, UpdateValidationStatus, restart after a process restart with the voucher type not "
          "registered again} x outcome: refused re-validation => not-accepted reply, transport closed (or error returned to the transport), rejection fails the channel with the "
          "rejection message; accepted => reply/limits/pause as decided. Panics are violations. distinct = observed parameter/outcome tuple."),
    parts=[
        dict(test="TestC04New", quick=480, thorough=24000, per_shard=60),
        dict(test="TestC04Restart", quick=384, thorough=16000, per_shard=48),
    ],
    floors=dict(any={"TestC04New.accepted": 60, "TestC04New.refused": 200, "TestC04Restart.revalidation_accepted": 40, "TestC04Restart.revalidation_refused": 40,
                     "TestC04Restart.restart_unregistered": 40, "TestC04Restart.later_voucher_of_other_type": 100, "TestC04New.typed_null_voucher_requests": 20}),
    assumptions=["a validator error on restart is only required to give a not-accepted reply and a closed transport (weaker reading, DESIGN C04)"],
)

CHECKS["C05"] = dict(
    level="exploration",
    rule=("C05Messages: a population of 1-6 open channels (all four roles, three peers, transfer ids deliberately colliding across peers, some with a later voucher) on a real "
          "manager; then 12-31 messages of every kind (update/cancel/voucher/restart/restart-existing requests; update/cancel/voucher-result/complete/restart/new responses) "
          "from {counterparty, stranger, self, another channel's peer} with existing or fresh transfer ids; after each message only the single channel the message may "
          "legitimately act on (by authenticated sender and role) may show a changed stored record, a new event or a transport call; then wrong-role local API calls must fail "
          "without effect. C05Restart: a valid restart request and its single-field mutations (base CID, voucher type, voucher node, sender, transfer id, terminated channel, "
          "later voucher instead of the original) and restart-existing requests (genuine, from a stranger, for a channel we did not initiate, terminated): honoured iff genuine. "
          "distinct = population shape resp. (mutation, direction, later voucher)."),
    parts=[
        dict(test="TestC05Messages", quick=120, thorough=8000, per_shard=12),
        dict(test="TestC05Restart", quick=192, thorough=9600, per_shard=24),
        dict(test="TestC16Route", quick=120, thorough=6000, per_shard=15),  # graphsync-path role checks (extension cross-checks)
    ],
    floors=dict(any={"TestC05Messages.messages": 1500, "TestC05Messages.legit_effects": 200, "TestC05Messages.from.stranger": 200, "TestC05Restart.genuine_restarts": 10,
                     "TestC05Restart.restart_mutations": 100, "TestC05Restart.restart_existing": 40}),
    assumptions=["the graphsync arrival path is exercised through the real transport over a graphsync double (part TestC16Route: role-confused extension messages)"],
)

CHECKS["C16"] = dict(
    level="exploration",
    rule=("real graphsync transport over a thread-safe graphsync double and a recording EventsHandler. 2-8 channels (all four roles, three peers, transfer ids colliding "
          "across peers and roles, optional per-channel store), 1-3 graphsync requests per channel (restarts), then 20-79 PRNG callbacks: incoming/outgoing/sent blocks "
          "(1 in 4 with BlockSizeOnWire()==0), processing listeners, completed responses with every status, requestor-cancelled, network send/receive errors, response and "
          "update extensions in the right and in the confused role, callbacks naming unknown request ids or requests without a data-transfer extension, pause/resume/close, "
          "cleanup followed by late callbacks. The harness owns the map request id -> channel; after every callback the new handler calls must be exactly the expected "
          "(operation, channel) multiset (nothing for unknown/foreign/cleaned-up), control calls must name the channel's current request, hook snapshot shows no route or "
          "tracking after cleanup, persistence options exist exactly for live channels with a store. distinct = per-channel (requester, #requests, cleaned, store) shape."),
    parts=[dict(test="TestC16Route", quick=200, thorough=12000, per_shard=25),
        dict(test="TestC16StaleOpen", quick=48, thorough=2400, per_shard=12),
        dict(test="TestC16CleanupInHook", quick=16, thorough=320, per_shard=8),
        dict(test="TestC16Fanout", quick=16, thorough=320, per_shard=8)],
    floors=dict(any={"TestC16Route.callbacks": 4000, "TestC16Route.cleanups": 60, "TestC16Route.restarts": 200, "TestC16Route.role_confused": 150,
                     "TestC16Route.offwire_blocks": 80, "TestC16Route.refused_opens": 20, "TestC16Route.foreign_requests": 150, "TestC16Route.completions": 100, "TestC16StaleOpen.abandoned_opens": 20, "TestC16StaleOpen.controls_after_abandoned_open": 100, "TestC16CleanupInHook.cleanup_completed_inside_hook": 16, "TestC16Fanout.fanout_events": 40}),
    assumptions=["the graphsync double runs the outgoing-request hook before Request returns, as go-graphsync v0.18 does"],
)

CHECKS["C08"] = dict(
    level="exploration",
    rule=("C08Chan: responder channel (push: limited by received, pull: by queued) with a PRNG limit (1 in 5: limit 0), PRNG unique block sizes that now and then land exactly on / "
          "one byte short of the limit, replays, 'sent' noise, reopen points (cold caches) and after every pause a new limit drawn around the progress (0, progress-1, progress, "
          "progress+1, larger); a 10-line running-sum model predicts for every report whether it returns the pause signal; DataLimitExceeded event, paused flag, stored limit and "
          "progress checked after each report. C08Mgr: the same through the real manager as responder (validator supplies the limit): pause signal, notification of the initiator "
          "(network Update(paused) for push / message returned with the block for pull, to the right peer), no resume without re-validation, accepting UpdateValidationStatus resumes "
          "iff new limit is 0 or exceeds the progress (boundary values), rejecting update fails the channel and closes the transport, optional manager restart while paused. "
          "distinct = (direction, zero limit, #pauses, reopened, #limit changes)."),
    parts=[
        dict(test="TestC08Chan", quick=240, thorough=16000, per_shard=30),
        dict(test="TestC08Mgr", quick=200, thorough=14000, per_shard=25),
        dict(test="TestC08Race", quick=480, thorough=9600, per_shard=40),
    ],
    floors=dict(any={"TestC08Chan.pauses": 300, "TestC08Chan.reopens": 200, "TestC08Chan.zero_limit_cases": 20, "TestC08Mgr.pauses": 150,
                     "TestC08Mgr.resuming_updates": 60, "TestC08Mgr.non_resuming_updates": 40, "TestC08Mgr.rejecting_updates": 20, "TestC08Mgr.reopens": 30, "TestC08Race.report_read_overlapped_by_update": 300, "TestC08Race.paused_at_new_limit": 100}),
    assumptions=["the transport double obeys pause signals (stops reporting), as a real transport does; blocks already in flight cannot be recalled",
                 "only block directions that can occur on a side are generated (the limit cache is per channel)"],
)

CHECKS["C11"] = dict(
    level="exploration",
    rule=("C11TwoParty: two real managers (initiator, responder) joined by a loop-back network double and an emulated transport carriage, one accepted channel in Ongoing on "
          "both sides; 2-30 PRNG pause/resume actions by either party (occasionally the responder's transport completes mid-way); after every action at quiescence both sides' "
          "(InitiatorPaused, ResponderPaused) must equal the fold of the actions, BothPaused the conjunction, SelfPaused the own role's flag; each local action must reach the "
          "transport once and be announced with an Update message of the right kind and pause bit; a resume by one party while the other is still paused must leave the other's "
          "transport paused (handler returns the pause signal / explicit PauseChannel). C11Step: each of the four pause/resume events on injected records of every status x "
          "flag setting x role: ignored, or changes exactly its own flag. distinct = observed action interleaving."),
    parts=[
        dict(test="TestC11TwoParty", quick=320, thorough=24000, per_shard=40),
        dict(test="TestC11Step", quick=16, thorough=160, per_shard=4),
        dict(test="TestC11EarlyPause", quick=16, thorough=320, per_shard=8),
    ],
    floors=dict(any={"TestC11TwoParty.actions": 3000, "TestC11TwoParty.voucher_traffic_between_pauses": 200, "TestC11TwoParty.resume_while_other_paused": 500, "TestC11TwoParty.with_responder_completion": 50,
                     "TestC11Step.applied": 150, "TestC11Step.ignored": 700, "TestC11Step.derived_flag_checks": 1500, "TestC11EarlyPause.pauses_before_acceptance_processed": 12}),
    assumptions=["messages are delivered before the next action (quiescence between actions); delayed/reordered delivery is exercised by the end-to-end engine"],
)

CHECKS["C09"] = dict(
    level="fault_enumeration",
    rule=("C09Chan: case index enumerates the product {9 statuses from which an ending can be taken (injected records)} x {cancel, error, complete} x {racing bookkeeping events "
          "delivered before / during (the environment double holds CleanupChannel open on the virtual clock) / after the cleanup} x role; 1-3 PRNG racing events. Per ending: "
          "transport cleanup and un-protect exactly once, settles in the matching terminal status, cleanup precedes the terminal snapshot. C09Close: real manager over the REAL "
          "graphsync transport over a graphsync double: role (4) x graphsync request state {no transport channel, tracked via UseStore but never opened, open, cancelled by an "
          "earlier close, cancelled by the remote requester, completed} x {user close, close-with-error} x cancel-message send {ok, fails at once, fails after 3 virtual seconds}: "
          "the close call has returned when the bubble is idle, final status Cancelled/Failed, exactly one cancel message of the right kind to the counterparty, one un-protect, "
          "no tracking/route/store/span/options left (hook snapshot). distinct = (status, ending, timing) resp. (role, request state, close kind, send mode, status)."),
    parts=[
        dict(test="TestC09Chan", quick=324, thorough=9720, per_shard=54),
        dict(test="TestC09Close", quick=224, thorough=9800, per_shard=28),
    ],
    floors=dict(any={"TestC09Chan.endings": 300, "TestC09Close.closes": 120, "TestC09Close.nonterminal_graphsync_errors": 8, "TestC09Close.restarted_with_store_before_ending": 4, "TestC09Close.pause_after_requester_cancelled": 4}),
    assumptions=["'promptly' is decided on the virtual clock: the call must have returned when the bubble is idle 2 virtual minutes later"],
)

CHECKS["C10"] = dict(
    level="exploration",
    rule=("C10Restart: real manager over the REAL graphsync transport over a graphsync double. Case index enumerates role (4) x {same process, manager+transport reopened on the "
          "same datastore} x previous request state {live, failed, requester-cancelled with 1-2 queued messages} x progress (0 / some blocks); PRNG: later voucher present, local or "
          "remote restart, validator accepts/rejects. Oracles: identity and progress fields unchanged and no new datastore key; the re-issued request is marked restart with the "
          "original transfer id, direction, ORIGINAL voucher, base CID, selector; a responder re-validates and asks the initiator (restart-existing-channel request); the skip count "
          "in the do-not-send-first-blocks extension equals the recorded received index; the cancel of a live previous request returned before the new request was issued (global "
          "call stamps); queued messages are attached to the next incoming request exactly once; a rejected incoming restart fails the channel. C10Cleanup: a channel persisted in "
          "Cancelling/Failing/Completing only finishes cleanup on restart (no transport/network traffic). distinct = parameter/outcome tuple."),
    parts=[
        dict(test="TestC10Restart", quick=384, thorough=19200, per_shard=48),
        dict(test="TestC10Cleanup", quick=12, thorough=120, per_shard=6),
        dict(test="TestC10Overlap", quick=16, thorough=320, per_shard=4),
    ],
    floors=dict(any={"TestC10Restart.restarts": 250, "TestC10Restart.own_side_finished_before_restart": 60, "TestC10Restart.blocks_recorded_during_restart_validation": 10, "TestC10Restart.skip_checks": 60, "TestC10Restart.cancel_then_request": 12, "TestC10Restart.queued_message_checks": 8,
                     "TestC10Cleanup.cleanup_restarts": 12, "TestC10Overlap.overlapping_restarts": 30}),
    assumptions=["restarts are issued at quiescent points (the skip-count clause is stated for recorded progress)"],
)

CHECKS["C17"] = dict(
    level="exploration",
    rule=("real manager over doubles with 1-4 global subscribers registered for the whole run (some yielding inside the callback for back-pressure), more subscribed and "
          "unsubscribed from other goroutines at PRNG points, per-transfer subscribers (WithSubscriber) on initiator channels; 1-6 channels of random roles; 20-149 PRNG stimuli "
          "drawn from every counterparty message kind (both arrival paths), every transport callback and every API call, including ones the state machine ignores as invalid. "
          "Oracle: the datastore WRITE LOG is the reference of applied events: per channel the (collapsed) snapshot sequence each whole-run subscriber saw must equal the sequence "
          "of stored records decoded by the independent decoder (count, order, every accessor incl. stage log); all whole-run subscribers agree; an announced event must show its "
          "defining effect (else it was an ignored event); byte totals move only on progress events; a per-transfer subscriber gets exactly its channel's events in the same order "
          "and is released at termination (hook); a subscriber is never called again once its unsubscribe returned and the queue drained. distinct = statuses reached x sizes."),
    parts=[dict(test="TestC17Subs", quick=160, thorough=9000, per_shard=10)],
    floors=dict(any={"TestC17Subs.events_checked": 4500, "TestC17Subs.per_transfer_checked": 80, "TestC17Subs.unsubscribed_checked": 100, "TestC17Subs.late_subscribers": 100, "TestC17Subs.opened_during_terminal_delivery": 15, "TestC17Subs.inbound_channel_reusing_our_transfer_id": 20, "TestC17Subs.unsubscribed_during_delivery": 60}),
    assumptions=["one applied event = one datastore write unless the record is byte-identical (collapsed on both sides); the harness advances the virtual clock between stimuli"],
)

CHECKS["C19"] = dict(
    level="exploration",
    rule=("C19Logs: two real managers joined by the emulated transport; 3-27 PRNG exchanges: the initiator sends vouchers, the responder sends voucher results and validation "
          "updates carrying results, 1 in 3 sends fails in the network double, identical values are repeated; after every step both sides' voucher and result logs must equal the "
          "lists of successfully sent values (failed sends not recorded, each successful one exactly once, in order), and every state (queries and all subscriber snapshots) "
          "must satisfy: IsPull <=> initiator is recipient, ChannelID = (initiator, responder, id) as created, OtherPeer is the other party, first voucher = opening voucher, "
          "logs append-only along the snapshot stream, Last* = last entry or the empty value. C19Concurrent: 2-4 concurrent senders and 1-2 readers on one log; the recorded "
          "history is checked with porcupine against an append-only list. Totality: every state handed out in the parts listed here (incl. crash-replay, migration, terminal "
          "stimuli and subscriber engines) has all 30 accessors called under recover. distinct = (direction, log sizes) / final log order."),
    parts=[
        dict(test="TestC19Logs", quick=160, thorough=12000, per_shard=20),
        dict(test="TestC19Concurrent", quick=120, thorough=8000, per_shard=15),
        dict(test="TestC02Mgr", quick=24, thorough=480, per_shard=6),
        dict(test="TestC06Crash", quick=16, thorough=320, per_shard=2),
        dict(test="TestC13Migrate", quick=24, thorough=480, per_shard=6),
        dict(test="TestC17Subs", quick=24, thorough=480, per_shard=6),
    ],
    floors=dict(any={"TestC19Logs.states_probed": 5000, "TestC19Logs.failed_sends": 300, "TestC19Logs.validation_results": 200, "TestC19Logs.logs_after_own_side_finished": 60, "TestC19Logs.responder_restarts": 100, "TestC19Concurrent.operations": 800}),
    assumptions=["for results carried by UpdateValidationStatus only 'sent => recorded exactly once' is asserted"],
)

CHECKS["C01"] = dict(
    level="exploration",
    rule=("two FULL nodes inside one synctest bubble: libp2p mocknet hosts, real go-graphsync, real network layer, real graphsync transport, real managers, in-memory "
          "blockstores. Per case: PRNG DAG (depth 0-3, fan-out 1-5, raw/dag-cbor leaves of 1 B-48 KiB, duplicated leaves and sub-DAGs; expected block set, traversal length and "
          "unique byte size come from an independent walk of the source store), direction, store configuration (default / per-channel store on receiver, sender, both), and a "
          "scenario by index: plain, data limit with repeated raises by the responder application, finalization round, forced pause then release, pause/resume by either party at "
          "the j-th received block, link cut at the j-th block healed by the channel monitor (virtual timers), some with the monitor merely enabled. After 20 virtual minutes at "
          "quiescence, IF the initiator is Completed and the responder had accepted: responder Completed and applied its own completion, every selected block in the receiver's "
          "store byte-identical, Received(receiver) == Queued(sender) == unique payload size. Cases where the initiator does not complete are counted as trivial. "
          "distinct = (direction, scenario, store config, final statuses, cuts, size class)."),
    parts=[dict(test="TestC01E2E", quick=60, thorough=3000, per_shard=4, watchdog=180, max_shards=10),
           dict(test="TestC01Late", quick=96, thorough=2400, per_shard=12)],
    floors=dict(any={"TestC01E2E.initiator_completed": 36, "TestC01E2E.limit_raises": 5, "TestC01E2E.finalization_rounds": 5, "TestC01E2E.completed_through_restart": 2,
                     "TestC01E2E.blocks": 300, "TestC01E2E.restarts_before_first_block": 4, "TestC01Late.initiator_completed": 48, "TestC01Late.late_update_during_complete_send": 12, "TestC01Late.two_round_finalizations": 24}),
    assumptions=["libp2p mocknet and in-memory blockstores stand in for real networks/disks; graphsync is the only transport"],
)

CHECKS["C20"] = dict(
    level="exploration",
    races_decide=True,
    rule=("every workload runs under the Go race detector (reports collected from GORACE log files, de-duplicated by top-frame pair, in scope when an access is in a "
          "go-data-transfer source file) on the REAL clock; hangs are decided by vf.HangCheck: the workload has not returned within its limit AND two goroutine dumps 1.5 s apart "
          "show identical parked library goroutines with none runnable (otherwise inconclusive). C20Manager: 8-24 goroutines x 60-149 operations on a real manager over "
          "thread-safe doubles: open/close/pause/resume/restart/vouchers/validation updates/queries/(un)subscribe, every transport callback, messages of every kind on both "
          "arrival paths, two subscribers that re-enter the API from inside the callback with the calls the property lists, Stop mid-flight in half of the cases. C20Transport: "
          "real transport over a graphsync double: 4-8 goroutines firing every hook/listener with every message kind racing one controller per channel "
          "(open/pause/resume/close/cleanup/options), then Shutdown. C20Monitor: bursts of events from 4-11 goroutines on the real monitor with millisecond timers, then shutdown. "
          "C20E2E (bubble): two full nodes, 4-10 simultaneous transfers, 4 disturbing goroutines (pause/resume/close/restart/disconnect), Stop mid-flight or after completion. "
          "C20Hazard: the hang triggers found earlier, placed deterministically (graphsync request carrying a cancel, handler refusing inside the outgoing hook, cleanup during open, "
          "incoming-request hook overlapping the channel's ending, pause/resume while a message for the same channel is queued in graphsync's request / response manager loop, Stop against limit-crossing reports, Stop while a per-transfer subscriber handles the terminal event, "
          "simultaneous block reports for one channel and simultaneous FIRST reports for a channel id not yet handled in this lifetime), one per "
          "case. The graphsync double models go-graphsync's two single-threaded manager loops (hooks run inside them, Request/Cancel/Pause/Unpause/SendUpdate wait for them). "
          "distinct = each case is a distinct seeded schedule."),
    parts=[
        dict(test="TestC20Manager", quick=16, thorough=400, per_shard=4, gomaxprocs=8, max_shards=4),
        dict(test="TestC20Transport", quick=12, thorough=300, per_shard=3, gomaxprocs=8, max_shards=4),
        dict(test="TestC20Monitor", quick=8, thorough=200, per_shard=4, gomaxprocs=8, max_shards=2),
        dict(test="TestC20E2E", quick=8, thorough=200, per_shard=2, watchdog=200),
        dict(test="TestC20Hazard", quick=18, thorough=144, per_shard=9),
    ],
    floors=dict(any={"TestC20Manager.operations": 8000, "TestC20Manager.reentrant_calls": 300, "TestC20Transport.operations": 8000, "TestC20Monitor.events": 5000,
                     "TestC20E2E.transfers": 30, "TestC20Hazard.hazard.hook-overlapping-ending": 2, "TestC20Hazard.hazard.pause-reached-graphsync-with-message-queued": 4, "TestC20Hazard.hazard.stop-vs-limit-reports": 100, "TestC20Hazard.hazard.stop-vs-terminal-subscriber": 2, "TestC20Hazard.hazard.simultaneous-reports-same-channel": 2000, "TestC20Hazard.hazard.simultaneous-first-reports-new-channel": 2000}),
    assumptions=["Transport.ChannelsForPeer (diagnostic accessor, unsynchronised read of the current request id) is outside the surface the property lists and is not driven",
                 "a hang verdict needs a stable, fully parked goroutine picture; a busy process is inconclusive"],
)
