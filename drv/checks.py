"""Table of checks: property -> level, parts (Go test functions with case counts per tier), floors.

A part: test (Go test func in harness/chk), quick / thorough (number of generated cases),
per_shard (cases per worker process, decides the number of shards), optional watchdog seconds,
norace (build without the race detector, C12 hostile-bytes volume only).
Floors: counters (as "<Test>.<counter>") that must reach a minimum, else the run is inconclusive.
"""

CHECKS = {
    "C07": dict(
        level="exploration",
        rule=("case = (seed,index)-determined PRNG workload. C07Seq: a channel of a random role in a transferring status gets "
              "traversal-shaped block reports in three directions (sizes unique per position), verbatim replays of earlier ranges and "
              "reopen points (new Channels on the same datastore); after every report totals/indexes must equal a running-sum model "
              "and never decrease. C07Conc: 2-8 concurrent reporters with overlapping ranges, conservation/at-most-once/order oracles over "
              "the subscriber snapshot stream. Non-trivial = >3 reports with a non-zero total (Seq) / >4 concurrent reports (Conc); "
              "distinct = distinct fingerprint of (role, reopen/replay use, which totals non-zero, size classes) resp. the observed "
              "return order of the concurrent reports."),
        parts=[
            dict(test="TestC07Seq", quick=160, thorough=12000, per_shard=30),
            dict(test="TestC07Conc", quick=128, thorough=8000, per_shard=20),
        ],
        floors=dict(any={"TestC07Seq.reopens": 10, "TestC07Seq.replays": 20, "TestC07Conc.reports": 500}),
        assumptions=["datastore Put is atomic", "block reports are traversal-shaped in the sequential phase (DESIGN C07)"],
    ),
}
