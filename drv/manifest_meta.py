"""Per-property texts for MANIFEST.json."""
HOOK_COMMITS = ["7c2f925"]
NOT_APPLICABLE = {}
META = {}

META["C07"] = dict(
    text=("Held on K generated executions: after every block report of PRNG traversal-shaped sequences (with replays and datastore reopen points) "
          "the durable totals/indexes equal an independent running-sum model, and under 2-8 concurrent reporters the subscriber snapshot stream "
          "shows each position counted at most once, conservation of the total and monotonicity. Exploration, not proof: the quantifier over all "
          "sequences/interleavings is sampled."),
    design_ref="DESIGN.md §2 C07",
    note="Trusts: the recording datastore double, the 30-line running-sum model, synctest quiescence detection. Datastore Put assumed atomic.",
    technique="runtime monitoring: reference-model oracle + conservation/at-most-once checker over recorded snapshot stream, race detector on",

)

META["C12"] = dict(
    text=("Held on K generated messages and hostile inputs: every constructor's output round-trips through all three wire forms with all observables intact, "
          "its bytes equal an independent schema-derived DAG-CBOR encoding, key-permuted encodings decode identically, each message has exactly one kind, "
          "and the decoders neither panic nor return unusable messages on mutated/garbage input. Sampled inputs, not all inputs."),
    design_ref="DESIGN.md §2 C12",
    note="Trusts internal/cborx (independent encoder/decoder) and the observable-extraction code; hostile IPLD nodes are built bounded, never decoded from hostile bytes.",
    technique="runtime monitoring: differential oracle against an independent encoder + round-trip/totality assertions over generated and hostile inputs",

)

META["C06"] = dict(
    text=("Crash points are enumerated exhaustively per generated history (every write boundary of the recorded write log is replayed into a fresh store and the "
          "real library reopened on it); histories themselves are sampled. Held: every reopened state was current at some point, never goes backwards, "
          "queries return durable states, cleanup finishes after restart."),
    design_ref="DESIGN.md §2 C06",
    note="Assumes atomic datastore Put; trusts the recording datastore double, the snapshot stream as the reference of 'states that were current', and internal/cborx for decoding stored records.",
    technique="runtime monitoring with fault enumeration: write-log prefix replay (crash at every write boundary) against the recorded snapshot stream",
)

META["C13"] = dict(
    text=("Held on K generated version-2 stores: the real migration path presents every field of every independently encoded record unchanged (paused statuses mapped), "
          "refuses operations until migration finished, is idempotent across restarts, and announces readiness once with the outcome."),
    design_ref="DESIGN.md §2 C13",
    note="Trusts internal/cborx for the v2 layout and the record->view rendering used as the expected value.",
    technique="runtime monitoring: differential oracle (independently encoded v2 records vs accessors after real migration AND vs the stored v3 record raw field by raw field), byte-diff of store across restarts",
)

META["C03"] = dict(
    text=("Held on K generated histories: trace predicates P1-P5 of DESIGN C03 evaluated over the real snapshot stream of initiator/responder channels, plus the "
          "exhaustive single-step relation over injected (status, flags, role) x operation. Histories are sampled; the single-step product is complete for the 15 real statuses."),
    design_ref="DESIGN.md §2 C03",
    note="Trusts the event classification table and the snapshot stream as observation; manager-level two-party variant is part of C03 parts when present.",
    technique="runtime monitoring: online trace-predicate checker over recorded (event, before, after) steps; state injection for the one-step relation; manager-level hold of a finalizing responder under validation updates, voucher results and repeated completion reports",
)

META["C02"] = dict(
    text=("Held on the enumerated product role x terminal status x {same process, reopened} x stimulus (each of the 28 channel events, each counterparty message kind on both "
          "arrival paths, each transport callback, each API call), in PRNG orders: byte-identical record, identical accessors, silent subscribers, no restart traffic. "
          "Routes to the terminal status and stimulus orders are sampled."),
    design_ref="DESIGN.md §2 C02",
    note="Trusts the recording datastore/transport/network doubles; terminal routes are built by the harness through public API and callbacks.",
    technique="runtime monitoring: before/after differential oracle (accessors + stored bytes + call logs) over an enumerated stimulus product",
)

META["C14"] = dict(
    text=("Held on K PRNG (configuration, failure pattern, timed script) triples executed against the real monitor on a virtual clock, with exact deadline checks "
          "(no wall-clock tolerance) and interval-overlap detection on the recording monitor API. Sampled schedules, not all."),
    design_ref="DESIGN.md §2 C14",
    note="Trusts testing/synctest's virtual clock and the recording monitor-API double; timings are decided on virtual time only.",
    technique="runtime monitoring on a virtual clock: interval-overlap, bounded-count, exactly-once and deadline oracles over the recorded monitor API call log (failures plain and context-wrapping); the monitor inside the real manager with faults on reconnect / restart send / transport re-open and acceptance processed during the open call",
)

META["C15"] = dict(
    text=("Failure patterns of stream opening are enumerated by case index (all patterns up to length 8 are reached in the thorough tier), combined with PRNG retry "
          "configurations, cancellation instants on a virtual clock, write faults and inbound byte streams; the real network layer runs over libp2p mocknet."),
    design_ref="DESIGN.md §2 C15",
    note="Trusts the wrapping host/stream doubles and the recording Receiver; mocknet instead of real sockets.",
    technique="runtime monitoring with fault injection at the libp2p host/stream boundary (enumerated open-failure patterns, write faults, short open timeouts, cancellation on a virtual clock), second and back-to-back sends through the same network object, inbound streams with malformed tails incl. body-less envelopes",
)

META["C18"] = dict(
    text=("Held on K recorded histories of concurrent opens (uniqueness + linearizability against a strictly increasing counter), successive manager lifetimes on the real "
          "clock, and duplicate new requests at sampled points of the original channel's life incl. concurrent identical requests."),
    design_ref="DESIGN.md §2 C18",
    note="porcupine v1.3.0 on bounded sub-histories plus a direct O(n^2) check of the forced order; the lifetimes clause depends on the real clock advancing.",
    technique="runtime monitoring: recorded call/return history checked for linearizability (porcupine + direct order check); write-log/byte diff for duplicates",
)

META["C04"] = dict(
    text=("Held on the enumerated product request shape x path x validator outcome (with PRNG result fields) for new requests, restart requests and validation updates, "
          "judged by joining the validator call log with the datastore write log and the transport/network call logs of the real manager."),
    design_ref="DESIGN.md §2 C04",
    note="Trusts the recording validator/transport/network/datastore doubles. The graphsync arrival path is emulated by calling the registered EventsHandler as the real transport does.",
    technique="runtime monitoring: join of recorded call logs (validator, datastore writes, transport, network) against the validator's decisions",
)

META["C05"] = dict(
    text=("Held on K generated channel populations and message storms: a message changes at most the one channel its authenticated sender and kind entitle it to; restart and "
          "restart-existing requests are honoured only when genuine; wrong-role local calls fail without effect. Senders, kinds and ids are sampled from a product space."),
    design_ref="DESIGN.md §2 C05",
    note="Trusts datastore/transport/network doubles; 'authenticated sender' is the peer argument the network layer passes (C15 checks that it is the connection's remote peer).",
    technique="runtime monitoring: per-message differential oracle on stored records, event streams and transport calls of all pre-existing channels",
)

META["C16"] = dict(
    text=("Held on K generated callback sequences against the real transport: the harness-owned request-id -> channel map is the oracle for every EventsHandler call; "
          "structural invariants (no route/tracking/store after cleanup) are read through the verif hook snapshot."),
    design_ref="DESIGN.md §2 C16",
    note="Trusts the graphsync double (FakeGS) and the recording EventsHandler; callbacks are fired sequentially here, concurrently in the C20 stress.",
    technique="runtime monitoring: expected-multiset oracle per fired callback over the recorded EventsHandler log + hook-based structural invariants; abandoned opens followed by a retry, cleanup completing inside a hook, fan-out of one graphsync event over several channels with cleanup from the handler",
)

META["C08"] = dict(
    text=("Held on K generated (block sizes, limit schedule, reopen points, direction) tuples: the real pause decisions equal those of a running-sum model at every report, "
          "including exact-boundary sizes and re-validation limits at progress-1/progress/progress+1, at the channels API and through the real manager."),
    design_ref="DESIGN.md §2 C08",
    note="Trusts the running-sum model (10 lines) and the recording transport/network doubles.",
    technique="runtime monitoring: reference-model oracle on the return value of every block report + recorded transport/network calls for re-validation outcomes; a limit-changing update overlapping the first report of a lifetime (slow state read injected at the datastore boundary), 480 schedules per quick run",
)

META["C11"] = dict(
    text=("Held on K PRNG interleavings of pause/resume actions by both parties over two real managers: a 2-bit reference per side, transport and announcement checks after each "
          "action, plus the exhaustive single-step table for the four pause events over all statuses/flags/roles."),
    design_ref="DESIGN.md §2 C11",
    note="Transport carriage between the managers is emulated by the harness bridge (mgr_test.go) following gsReqRecdHook/gsIncomingResponseHook/gsRequestUpdatedHook; real graphsync in C01.",
    technique="runtime monitoring: reference-model (2 bits per side) oracle over both managers' states + recorded transport/network calls, voucher traffic between pause actions, derived-flag invariants on every injected state, pauses issued while the acceptance is held back by the network",
)

META["C09"] = dict(
    text=("The product status x ending x race timing is enumerated by case index (complete in the quick tier for one role, all roles in thorough); close paths are enumerated over "
          "role x graphsync request state x close kind with PRNG cancel-send faults. Hangs are decided by virtual-time quiescence, not wall clock."),
    design_ref="DESIGN.md §2 C09",
    note="Trusts the environment/network/graphsync doubles; the real transport is used for the close paths.",
    technique="runtime monitoring with fault injection: exactly-once counters on recorded cleanup/un-protect calls, quiescence-based hang detection on a virtual clock",
)

META["C10"] = dict(
    text=("Held on the enumerated product role x reopened x previous-request state x progress with PRNG voucher/validator/initiative choices: relational before/after diff, decoded "
          "re-issued messages, graphsync call order by global stamps, extension payloads, all against the real manager and real transport."),
    design_ref="DESIGN.md §2 C10",
    note="Trusts the graphsync double's call stamps and the recording network/validator/datastore doubles.",
    technique="runtime monitoring: relational before/after oracle + ordering oracle over the recorded graphsync/network call log of the real transport; blocks arriving during restart validation; overlapping restarts on the real clock with late cancel confirmations (exactly the newest request stays live)",
)

META["C17"] = dict(
    text=("Held on K generated manager histories: subscriber call logs are compared with the datastore write log (independent observation of what was applied), across several "
          "subscribers, with subscription changes from other goroutines and per-transfer subscribers."),
    design_ref="DESIGN.md §2 C17",
    note="Trusts the recording datastore (write log), the independent record decoder (internal/cborx + recordToView) and the subscriber recorder.",
    technique="runtime monitoring: offline comparison of recorded subscriber call logs against the datastore write log (exactly-once, order, state agreement), with unsubscribes landing during a delivery and inbound channels reusing a transfer id",
)

META["C19"] = dict(
    text=("Held on K generated voucher/result exchange scripts with injected send failures (exact log contents on both sides after every step), on recorded concurrent "
          "histories (porcupine, append-only list model), and on every state the other engines' workloads hand out (totality probe: all accessors under recover)."),
    design_ref="DESIGN.md §2 C19",
    note="Trusts the network double's failure injection and the StateView extraction (which is itself the totality probe).",
    technique="runtime monitoring: totality probe on every observed state + reference lists for the voucher logs + porcupine linearizability check of concurrent histories",
)

META["C01"] = dict(
    text=("Held on K end-to-end executions of the complete real stack (two nodes, real graphsync over mocknet) with generated DAGs and scenario schedules on a virtual clock: "
          "whenever the initiator reported Completed, the responder, the receiver's store and the byte totals agreed with an independent walk of the source DAG."),
    design_ref="DESIGN.md §2 C01",
    note="Trusts the independent DAG walk and the blockstore comparison; the premise (initiator Completed after acceptance) is checked, not assumed.",
    technique="runtime monitoring: end-to-end oracle at quiescence (virtual time) over the real two-node stack with injected link cuts, limits, pauses, finalization, slow receiver disk and early restarts; plus two real managers back to back with a late / two-round finalization decision racing the completion message",
)

META["C20"] = dict(
    text=("Held on K seeded stress schedules per workload with the race detector watching every access the workloads reach and a deadlock detector confirming hangs from "
          "goroutine dumps; the evidence lists operations per kind, re-entrant calls and raw/de-duplicated race reports. Absence of reports covers the executed interleavings only."),
    design_ref="DESIGN.md §2 C20",
    note="Go race detector (happens-before based, no false positives, misses races the schedules do not exercise); deadlock confirmation needs two identical parked dumps.",
    technique="Go race detector over multi-goroutine stress workloads + goroutine-dump deadlock and livelock detector (real clock): stress on manager / transport (graphsync double with go-graphsync's two manager loops) / monitor / real two-node stack, and nine deterministic hazard placements found by earlier hangs and seeded changes",
)
