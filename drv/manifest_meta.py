"""Per-property texts for MANIFEST.json."""
HOOK_COMMITS = []
NOT_APPLICABLE = {}
META = {
    "C07": dict(
        text=("Held on K generated executions: after every block report of PRNG traversal-shaped sequences (with replays and datastore reopen points) "
              "the durable totals/indexes equal an independent running-sum model, and under 2-8 concurrent reporters the subscriber snapshot stream "
              "shows each position counted at most once, conservation of the total and monotonicity. Exploration, not proof: the quantifier over all "
              "sequences/interleavings is sampled."),
        design_ref="DESIGN.md §2 C07",
        note="Trusts: the recording datastore double, the 30-line running-sum model, synctest quiescence detection. Datastore Put assumed atomic.",
        technique="runtime monitoring: reference-model oracle + conservation/at-most-once checker over recorded snapshot stream, race detector on",
    ),
}
