#!/bin/bash
# applies a seeded change to /repo, runs a check, and reverts /repo straight afterwards.
# usage: selftest.sh <patch.diff> <Cxx> [quick|thorough]
P=$1; ID=$2; TIER=${3:-quick}
cd /repo || exit 2
if [ -n "$(git status --porcelain --untracked-files=no)" ]; then echo "/repo has uncommitted changes, refusing"; exit 2; fi
if ! git apply --3way $P 2>/tmp/selftest.apply.err && ! git apply $P 2>>/tmp/selftest.apply.err; then echo "SELFTEST $ID $(basename $(dirname $P))/$(basename $P): patch does not apply: $(tail -1 /tmp/selftest.apply.err)"; git reset -q; git checkout -- . ; exit 3; fi
git reset -q
cp /verif/evidence/$ID.json /tmp/selftest.$ID.evidence.keep 2>/dev/null   # evidence describes the unchanged tree: put it back afterwards
cd /verif && VERIF_KEEP= ./run.sh $ID $TIER > /tmp/selftest.$ID.out 2>&1; rc=$?
cp /tmp/selftest.$ID.evidence.keep /verif/evidence/$ID.json 2>/dev/null
git -C /repo checkout -- .
sig=$(grep -A1 "^VIOLATION" /tmp/selftest.$ID.out | grep signature | head -3 | sed 's/^ *signature: //' | tr '\n' ';')
echo "SELFTEST $ID $P exit=$rc $( [ $rc = 1 ] && echo CAUGHT || echo MISSED ) $sig"
grep -E "^\[C|INCONCLUSIVE" /tmp/selftest.$ID.out | head -3
rm -rf /verif/replays/* 
