#!/usr/bin/env python3
"""Regenerates the table of DESIGN.md §10 (between the SEEDTABLE markers) from seeded/*/meta.json,
seeded/RESULTS*.txt and mutants/*.diff. Run after drv/selftest_all.sh."""
import glob, json, os, re

V = os.path.dirname(os.path.dirname(os.path.abspath(__file__)))
res = {}
for f in sorted(glob.glob(os.path.join(V, "seeded", "RESULTS*.txt"))):
    tag = os.path.basename(f)[len("RESULTS"):-4].lstrip(".") or "seed1"
    for l in open(f):
        m = re.match(r"SELFTEST (C\d\d) (\S+) exit=(\d) (\S+) ?(.*)", l.strip())
        if m:
            key = re.sub(r"/+", "/", m.group(2)).replace("/verif/", "")
            res.setdefault(key, {})[tag] = (m.group(4), m.group(5))


def cell(key):
    r = res.get(key, {})
    if not r:
        return "not run", ""
    seeds = sorted(r)
    verdicts = ", ".join(f"{s}: {'caught' if r[s][0]=='CAUGHT' else r[s][0].lower()}" for s in seeds)
    first = next((r[s][1] for s in seeds if r[s][0] == "CAUGHT"), "")
    sigs = "; ".join(x.strip() for x in first.split(";") if x.strip())
    sigs = re.sub(r"\|", "/", sigs)
    return verdicts, (sigs[:230] + ("…" if len(sigs) > 230 else ""))


out = ["| change | what it does | needs, to manifest | quick check of its property | first signatures reported |", "|---|---|---|---|---|"]
for d in sorted(glob.glob(os.path.join(V, "seeded", "C*-*"))):
    m = json.load(open(os.path.join(d, "meta.json")))
    pf = "patch_current.diff" if os.path.exists(os.path.join(d, "patch_current.diff")) else "patch.diff"
    key = f"seeded/{m['id']}/{pf}"
    v, s = cell(key)
    if m.get("neutralised_by"):
        v += f" (expected: neutralised by fix {m['neutralised_by']['commit']})"
    if m.get("outside_quantified_space"):
        v += " (expected: needs an I/O fault the property does not quantify over)"
    esc = lambda t: (t or "").replace("|", "/").replace("\n", " ")
    out.append(f"| {m['id']}{' (ported)' if pf!='patch.diff' else ''} | {esc(m.get('change'))} | {esc(m.get('needs_to_manifest'))} | {v} | {esc(s)} |")
for p in sorted(glob.glob(os.path.join(V, "mutants", "*.diff"))):
    key = "mutants/" + os.path.basename(p)
    v, s = cell(key)
    name = os.path.basename(p)[:-5]
    out.append(f"| {name} | reverse of the fix commit(s) for {name.split('-')[1]} (§6) | see §6 | {v} | {s.replace('|','/')} |")
table = "\n".join(out)
p = os.path.join(V, "DESIGN.md")
s = open(p).read()
a, b = "<!-- SEEDTABLE:BEGIN -->", "<!-- SEEDTABLE:END -->"
i, j = s.index(a) + len(a), s.index(b)
open(p, "w").write(s[:i] + "\n" + table + "\n" + s[j:])
print(f"{len(out)-2} rows")
