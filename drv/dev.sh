#!/bin/sh
# developer helper: build and run one Go test func in a single process, summarise violations
# usage: dev.sh <TestName> [N]
cd /verif/harness || exit 2
export GOFLAGS=-mod=mod GOPROXY=off GOSUMDB=off GOTOOLCHAIN=local GOLOG_LOG_LEVEL=fatal
go1.26.8 vet ./chk || exit 2
go1.26.8 test -c -race -tags verif -o /verif/.build/chk.race.test ./chk || exit 2
cd /verif/.build && rm -f /tmp/dev.jsonl
VERIF_N=${2:-20} VERIF_OUT=/tmp/dev.jsonl VERIF_WATCHDOG=${WD:-30} ./chk.race.test -test.run "^$1\$" > /tmp/dev.out 2>&1
echo "exit=$?"; tail -3 /tmp/dev.out | cut -c1-300
python3 - <<'PY'
import json,collections
sig=collections.Counter(); ex={}
n=0; cnt=collections.Counter(); nt=0; fps=set(); wall=0
for l in open('/tmp/dev.jsonl'):
    r=json.loads(l)
    if r['kind']!='end': continue
    n+=1; wall+=r.get('wall_ms',0)
    if r.get('nontrivial'): nt+=1; fps.add(r['fp'])
    for k,v in (r.get('counters') or {}).items(): cnt[k]+=v
    if r.get('panic'):
        npanic=globals().get('npanic',0)+1; globals()['npanic']=npanic
        if npanic<=2: print('PANIC idx',r['index'],r['panic'][:600])
    for v in r.get('viols') or []:
        sig[(v['property'],v['sig'])]+=1; ex.setdefault((v['property'],v['sig']),(r['index'],v['detail']))
print(n,'cases; nontrivial',nt,'distinct',len(fps),'wall_ms',wall, dict(cnt))
for s,c in sig.most_common(30): print(c,s,'::',ex[s][0],ex[s][1][:900])
PY
